"""kverif: runtime-monitoring checks for kfac-pytorch (see /verif/DESIGN.md)."""
