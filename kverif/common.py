"""Shared helpers: repo path injection, seeding, hashing, shard result container."""
from __future__ import annotations

import hashlib
import json
import os
import random
import sys
import time
import warnings

VERIF_ROOT = os.path.dirname(os.path.dirname(os.path.abspath(__file__)))
REPO = os.environ.get('KVERIF_REPO', '/repo')
STUBS = os.path.join(VERIF_ROOT, 'stubs')


def setup_paths() -> None:
    """Make `import kfac` resolve to the working tree under REPO (never a copy)."""
    for p in (STUBS, REPO):
        if p in sys.path:
            sys.path.remove(p)
        sys.path.insert(0, p)


def import_kfac():
    """Import kfac from REPO's current working tree and assert that is what we got."""
    setup_paths()
    warnings.filterwarnings('ignore', message='NVIDIA Apex is not installed')
    import kfac  # noqa: F401

    here = os.path.realpath(os.path.dirname(kfac.__file__))
    want = os.path.realpath(os.path.join(REPO, 'kfac'))
    if here != want:
        raise RuntimeError(f'kfac imported from {here}, expected {want}')
    import torch

    torch.set_num_threads(1)
    return kfac


def stable_hash(*parts) -> str:
    h = hashlib.sha256()
    h.update(json.dumps(parts, sort_keys=True, default=str).encode())
    return h.hexdigest()[:16]


def case_rng(seed: int, prop: str, index: int, salt: str = '') -> random.Random:
    return random.Random(int(stable_hash(seed, prop, index, salt), 16))


def jsonable(x):
    """Best-effort conversion of a case description into JSON."""
    try:
        import torch
    except Exception:  # pragma: no cover
        torch = None
    if isinstance(x, dict):
        return {str(k): jsonable(v) for k, v in x.items()}
    if isinstance(x, (list, tuple, set, frozenset)):
        return [jsonable(v) for v in (sorted(x, key=str) if isinstance(x, (set, frozenset)) else x)]
    if isinstance(x, (str, int, bool)) or x is None:
        return x
    if isinstance(x, float):
        if x != x or x in (float('inf'), float('-inf')):
            return str(x)
        return x
    if torch is not None and isinstance(x, torch.Tensor):
        if x.numel() <= 16:
            return jsonable(x.detach().double().flatten().tolist())
        return f'tensor{tuple(x.shape)}:{x.dtype}'
    if torch is not None and isinstance(x, torch.dtype):
        return str(x)
    if callable(x):
        return getattr(x, '__kv_name__', getattr(x, '__name__', 'callable'))
    return str(x)


class Result:
    """What a shard observed. Merged across shards by the driver."""

    def __init__(self) -> None:
        self.evaluations = 0
        self.nontrivial: set[str] = set()
        self.samples: list = []
        self.violations: list[dict] = []
        self.counters: dict[str, float] = {}
        self.maxima: dict[str, float] = {}
        self.sets: dict[str, set] = {}
        self.inconclusive: list[str] = []
        self.skipped: dict[str, int] = {}
        self.info: list[str] = []

    # -- recording -------------------------------------------------------
    def count(self, name: str, n: float = 1) -> None:
        self.counters[name] = self.counters.get(name, 0) + n

    def maxi(self, name: str, v: float) -> None:
        if v == v:
            self.maxima[name] = max(self.maxima.get(name, float('-inf')), v)

    def add(self, name: str, item) -> None:
        self.sets.setdefault(name, set()).add(item if isinstance(item, str) else stable_hash(item))

    def skip(self, why: str) -> None:
        self.skipped[why] = self.skipped.get(why, 0) + 1

    def sample(self, case, limit: int = 3) -> None:
        if len(self.samples) < limit:
            self.samples.append(jsonable(case))

    def violation(self, what: str, case, mechanism: str | None = None, **extra) -> None:
        v = {'what': what, 'mechanism': mechanism, 'case': jsonable(case)}
        v.update(jsonable(extra))
        site_log = os.environ.get('KVERIF_SITE_LOG')
        if site_log:
            # sensitivity audit of the monitors (tools/site_audit.py): which violation sites ever fire on a broken tree
            import sys
            fr = sys._getframe(1)
            with open(site_log, 'a') as f:
                f.write(f'{os.path.basename(fr.f_code.co_filename)}:{fr.f_lineno}\n')
        # keep the shard output bounded: many identical failures are summarised
        if len(self.violations) < 200:
            self.violations.append(v)
        self.count('violations_seen')

    # -- transport -------------------------------------------------------
    def to_json(self) -> dict:
        return {
            'evaluations': self.evaluations,
            'nontrivial': sorted(self.nontrivial),
            'samples': self.samples,
            'violations': self.violations,
            'counters': self.counters,
            'maxima': self.maxima,
            'sets': {k: sorted(v) for k, v in self.sets.items()},
            'inconclusive': self.inconclusive,
            'skipped': self.skipped,
            'info': self.info[:50],
        }


class Deadline:
    def __init__(self, seconds: float) -> None:
        self.t0 = time.time()
        self.end = self.t0 + seconds

    def over(self) -> bool:
        return time.time() > self.end


def tier_value(tier: str, quick, thorough):
    return quick if tier == 'quick' else thorough
