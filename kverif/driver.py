"""Shard fan-out over subprocesses, verdict folding, evidence and replay files."""
from __future__ import annotations

import importlib
import json
import os
import shutil
import subprocess
import sys
import tempfile
import time
from concurrent.futures import ThreadPoolExecutor

from kverif.common import VERIF_ROOT, stable_hash

PY = sys.executable
MAX_PROCS = int(os.environ.get('KVERIF_PROCS', '14'))


def load_prop(pid: str):
    return importlib.import_module(f'kverif.props.{pid.lower()}')


def _exh(mod, tier):
    ex = getattr(mod, 'EXHAUSTIVE', False)
    return ex.get(tier, False) if isinstance(ex, dict) else ex


def load_findings() -> list[dict]:
    path = os.environ.get('KVERIF_FINDINGS', os.path.join(VERIF_ROOT, 'known_findings.json'))  # override only for self-tests of the KNOWN-FINDING path
    if not os.path.exists(path):
        return []
    with open(path) as f:
        return json.load(f).get('findings', [])


def _run_one(pid: str, spec: dict, workdir: str, idx: int) -> dict:
    specfile = os.path.join(workdir, f'spec{idx}.json')
    outfile = os.path.join(workdir, f'out{idx}.json')
    with open(specfile, 'w') as f:
        json.dump(spec, f)
    env = dict(os.environ)
    env['PYTHONHASHSEED'] = str(spec.get('hashseed', 0))
    env['OMP_NUM_THREADS'] = '1'
    env['MKL_NUM_THREADS'] = '1'
    env['PYTHONPATH'] = VERIF_ROOT + os.pathsep + env.get('PYTHONPATH', '')
    env['PIP_NO_INDEX'] = '1'
    timeout = spec.get('budget_s', 60) * 3 + 120
    t0 = time.time()
    try:
        p = subprocess.run(
            [PY, '-m', 'kverif.worker', pid, specfile, outfile],
            cwd=VERIF_ROOT, env=env, timeout=timeout,
            stdout=subprocess.PIPE, stderr=subprocess.STDOUT, text=True,
        )
    except subprocess.TimeoutExpired:
        return {'crash': f'shard {idx} exceeded the watchdog of {timeout:.0f}s (inconclusive)', 'spec': spec}
    if p.returncode != 0 or not os.path.exists(outfile):
        return {'crash': f'shard {idx} exited {p.returncode}: {p.stdout[-1500:]}', 'spec': spec}
    with open(outfile) as f:
        out = json.load(f)
    out['wall_s'] = time.time() - t0
    return out


def run_check(pid: str, tier: str, seed: int) -> int:
    mod = load_prop(pid)
    t0 = time.time()
    specs = mod.plan(tier, seed)
    for i, s in enumerate(specs):
        s.setdefault('tier', tier)
        s.setdefault('seed', seed)
        s.setdefault('shard', i)
    workdir = tempfile.mkdtemp(prefix=f'kverif-{pid}-')
    try:
        with ThreadPoolExecutor(max_workers=MAX_PROCS) as ex:
            outs = list(ex.map(lambda a: _run_one(pid, a[1], workdir, a[0]), enumerate(specs)))
    finally:
        shutil.rmtree(workdir, ignore_errors=True)
    return fold(pid, mod, tier, seed, outs, time.time() - t0)


def fold(pid, mod, tier, seed, outs, wall) -> int:
    evaluations = 0
    nontrivial: set[str] = set()
    samples: list = []
    violations: list[dict] = []
    counters: dict[str, float] = {}
    maxima: dict[str, float] = {}
    sets: dict[str, set] = {}
    inconclusive: list[str] = []
    skipped: dict[str, int] = {}
    info: list[str] = []
    for o in outs:
        if 'crash' in o:
            inconclusive.append(o['crash'])
            continue
        evaluations += o['evaluations']
        nontrivial |= set(o['nontrivial'])
        for s in o['samples']:
            if len(samples) < 5:
                samples.append(s)
        violations += o['violations']
        for k, v in o['counters'].items():
            counters[k] = counters.get(k, 0) + v
        for k, v in o['maxima'].items():
            maxima[k] = max(maxima.get(k, float('-inf')), v)
        for k, v in o['sets'].items():
            sets.setdefault(k, set()).update(v)
        inconclusive += o['inconclusive']
        for k, v in o['skipped'].items():
            skipped[k] = skipped.get(k, 0) + v
        info += o.get('info', [])

    post = getattr(mod, 'postcheck', None)
    if post is not None:
        pv = post(counters, maxima, sets)
        violations += pv
        if pv and os.environ.get('KVERIF_SITE_LOG'):
            with open(os.environ['KVERIF_SITE_LOG'], 'a') as f:
                f.write(f'{pid.lower()}.py:postcheck\n')
    for name in getattr(mod, 'REQUIRED', []):
        if counters.get(name, 0) <= 0:
            inconclusive.append(f'deciding monitor "{name}" was evaluated 0 times')
    if len(nontrivial) < 2:
        inconclusive.append(f'only {len(nontrivial)} distinct non-trivial cases were observed')

    findings = load_findings()
    known = {f['key']: f for f in findings if f.get('property') == pid and f.get('status') == 'known'}
    real: list[dict] = []
    known_hits: dict[str, int] = {}
    for v in violations:
        m = v.get('mechanism')
        if m is not None and m in known:
            known_hits[m] = known_hits.get(m, 0) + 1
        else:
            real.append(v)

    lines: list[str] = []
    for k, n in sorted(known_hits.items()):
        lines.append(f'KNOWN-FINDING: property={pid} {k}: {known[k]["what"]} (observed {n}x)')
    out_root = os.environ.get('KVERIF_OUT', VERIF_ROOT)  # mutation runs write elsewhere so that committed evidence is never from a mutant
    replay_dir = os.path.join(out_root, 'replays', pid)
    seen_what: set[str] = set()
    for v in real:
        sig = stable_hash(v.get('what', '')[:80], v.get('mechanism'))
        if sig in seen_what and len(seen_what) >= 1 and len(lines) > 40:
            continue
        seen_what.add(sig)
        os.makedirs(replay_dir, exist_ok=True)
        path = os.path.join(replay_dir, stable_hash(v) + '.json')
        with open(path, 'w') as f:
            json.dump({'property': pid, 'tier': tier, 'seed': seed, **v}, f, indent=1)
        if len(lines) < 40:
            lines.append(f'VIOLATION property={pid} replay={path}')
            lines.append('  what: ' + str(v.get('what'))[:600])

    coverage = {
        'evaluations': int(evaluations),
        'distinct_nontrivial': len(nontrivial),
        'rule': mod.RULE,
        'samples': samples if samples else ['(no sample recorded)'],
        'counters': {k: (int(v) if float(v).is_integer() else v) for k, v in sorted(counters.items())},
        'maxima': {k: v for k, v in sorted(maxima.items())},
        'distinct': {k: len(v) for k, v in sorted(sets.items())},
        'skipped': skipped,
        'known_finding_hits': known_hits,
        'inconclusive_reasons': inconclusive[:20],
        'shards': len(outs),
        'exhaustive': bool(_exh(mod, tier)),
        'exhaustive_scope': getattr(mod, 'EXHAUSTIVE_SCOPE', ''),
    }
    if info:
        coverage['info'] = info[:20]
    extra = getattr(mod, 'coverage_extra', None)
    if extra is not None:
        coverage.update(extra(counters, maxima, sets))
    evidence = {
        'property_id': pid,
        'tier': tier,
        'seed': int(seed),
        'level': mod.LEVEL,
        'coverage': coverage,
        'assumptions': list(mod.ASSUMPTIONS),
        'wall_s': round(wall, 2),
        'violations': len(real),
    }
    os.makedirs(os.path.join(out_root, 'evidence'), exist_ok=True)
    with open(os.path.join(out_root, 'evidence', f'{pid}.json'), 'w') as f:
        json.dump(evidence, f, indent=1, sort_keys=True)

    for ln in lines:
        print(ln)
    summ = (f'{pid} tier={tier} seed={seed} evaluations={evaluations} '
            f'distinct_nontrivial={len(nontrivial)} violations={len(real)} '
            f'known={sum(known_hits.values())} wall={wall:.1f}s')
    if real:
        print('RESULT violated: ' + summ)
        return 1
    if inconclusive:
        for r in inconclusive[:10]:
            print('INCONCLUSIVE ' + pid + ': ' + r[:800])
        print('RESULT inconclusive: ' + summ)
        return 2
    print('RESULT held on what was observed: ' + summ)
    key = ', '.join(f'{k}={v}' for k, v in list(coverage['counters'].items())[:12])
    print('  observed: ' + key)
    return 0


def run_replay(pid: str, path: str) -> int:
    mod = load_prop(pid)
    with open(path) as f:
        v = json.load(f)
    from kverif.common import Result, import_kfac

    os.environ['VERIF_SEED'] = str(v.get('seed', 0))
    import_kfac()
    res = Result()
    if isinstance(v['case'], dict) and 'shard_spec' in v['case']:
        # an exception escaped a whole shard: replay = run that shard again
        import traceback
        from kverif.common import REPO
        try:
            mod.run_shard(v['case']['shard_spec'], res)
        except BaseException:
            tb = traceback.format_exc()
            if (REPO.rstrip('/') + '/kfac/') not in tb:
                raise
            res.violation('a valid use raised inside kfac (not classified by the check): ' + tb.strip().splitlines()[-1][:300], v['case'])
    else:
        mod.replay(v['case'], res)
    for x in res.violations:
        print('VIOLATION property=%s replay=%s' % (pid, path))
        print('  what: ' + x['what'][:2000])
    if not res.violations:
        print('replay: no violation reproduced')
    return 1 if res.violations else 0
