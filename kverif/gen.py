"""Workload generators: module trees, runnable models, configurations."""
from __future__ import annotations

import re

import torch
from torch import nn


# ----------------------------------------------------------------- custom classes
class MyLinear(nn.Linear):
    pass


class MyConv(nn.Conv2d):
    pass


def _fake(name, base=nn.Module):
    """An UNSUPPORTED leaf class whose __name__ collides with a supported one (user-defined, not derived from torch's)."""
    def __init__(self):
        nn.Module.__init__(self)
        self.weight = nn.Parameter(torch.zeros(2, 2))
        self.bias = nn.Parameter(torch.zeros(2))
    return type(name, (base,), {'__init__': __init__, 'forward': lambda self, x: x})


FakeLinear = _fake('Linear')
FakeConv2d = _fake('Conv2d')


class LinearWithChild(nn.Linear):
    """A Linear subclass that is NOT a leaf."""

    def __init__(self, i, o):
        super().__init__(i, o)
        self.inner = nn.Linear(o, o)


class Block(nn.Module):
    def __init__(self, mods: dict):
        super().__init__()
        for k, v in mods.items():
            self.add_module(k, v)

    def forward(self, x):
        for m in self.children():
            x = m(x)
        return x


class AttentionBlock(Block):
    pass


class Residual(nn.Module):
    def __init__(self, body):
        super().__init__()
        self.body = body

    def forward(self, x):
        return x + self.body(x)


class Cast(nn.Module):
    def __init__(self, dt):
        super().__init__()
        self.dt = dt

    def forward(self, x):
        return x.to(self.dt)


# ----------------------------------------------------------------- C16 trees (not runnable)
class Net:
    """classes defined in a nested scope: __qualname__ ('Net.Head') differs from __name__ ('Head'), which is what skip
    patterns are documented to be searched against"""
    class Head(nn.Linear):
        pass

    class Stem(nn.Conv2d):
        pass


def _local_projection():
    class Projection(nn.Linear):
        pass
    return Projection


LocalProjection = _local_projection()   # qualname '_local_projection.<locals>.Projection'


class MaskedLinear(nn.Linear):
    """a supported type with an EXTRA parameter besides weight and bias (a mask / scale); frozen or trainable"""

    def __init__(self, i, o, frozen_extra):
        super().__init__(i, o)
        self.mask = nn.Parameter(torch.ones(o), requires_grad=not frozen_extra)

    def forward(self, x):
        return super().forward(x) * self.mask


class ScaledConv2d(nn.Conv2d):
    def __init__(self, i, o, k, frozen_extra):
        super().__init__(i, o, k)
        self.scale = nn.Parameter(torch.ones(1), requires_grad=not frozen_extra)

    def forward(self, x):
        return super().forward(x) * self.scale


def random_tree(rng, depth=0, pool=None):
    pool = pool if pool is not None else []
    kinds = ['linear', 'linear_nobias', 'conv', 'mylinear', 'myconv', 'bn', 'ln', 'emb', 'relu', 'bilinear', 'mha',
             'frozen', 'partfrozen', 'shared', 'tied', 'nested', 'extraparam', 'wrapchild', 'container', 'container', 'modulelist', 'moduledict', 'identity', 'conv1d', 'fakelinear', 'fakeconv']

    def leaf(kind):
        if kind == 'linear':
            return nn.Linear(rng.randint(1, 4), rng.randint(1, 4))
        if kind == 'linear_nobias':
            return nn.Linear(rng.randint(1, 4), rng.randint(1, 4), bias=False)
        if kind == 'conv':
            return nn.Conv2d(rng.randint(1, 3), rng.randint(1, 3), rng.randint(1, 3), bias=rng.random() < 0.5)
        if kind == 'mylinear':
            return MyLinear(2, 3)
        if kind == 'myconv':
            return MyConv(1, 2, 2)
        if kind == 'bn':
            return nn.BatchNorm2d(2)
        if kind == 'ln':
            return nn.LayerNorm(3)
        if kind == 'emb':
            return nn.Embedding(5, 3)
        if kind == 'relu':
            return nn.ReLU()
        if kind == 'identity':
            return nn.Identity()
        if kind == 'conv1d':
            return nn.Conv1d(1, 2, 2)
        if kind == 'bilinear':
            return nn.Bilinear(2, 2, 2)
        if kind == 'mha':
            return nn.MultiheadAttention(4, 2)
        if kind == 'frozen':
            m = nn.Linear(2, 2) if rng.random() < 0.6 else nn.Conv2d(1, 1, 1)
            for p in m.parameters():
                p.requires_grad_(False)
            return m
        if kind == 'partfrozen':
            m = nn.Linear(2, 2) if rng.random() < 0.6 else nn.Conv2d(1, 1, 1)
            (m.bias if rng.random() < 0.5 else m.weight).requires_grad_(False)
            return m
        if kind == 'wrapchild':
            return LinearWithChild(2, 3)
        if kind == 'extraparam':
            fr = rng.random() < 0.6
            return MaskedLinear(2, 3, fr) if rng.random() < 0.6 else ScaledConv2d(1, 2, 2, fr)
        if kind == 'nested':
            return rng.choice([lambda: Net.Head(2, 3), lambda: Net.Stem(1, 2, 2), lambda: LocalProjection(3, 2)])()
        if kind == 'fakelinear':
            return FakeLinear()
        if kind == 'fakeconv':
            return FakeConv2d()
        raise ValueError(kind)

    n = rng.randint(1, 4) if depth else rng.randint(1, 5)
    names = ['fc', 'conv', 'head', 'layer', 'attn', 'query_key_value', 'dense_4h', 'proj', 'a', 'b1', 'module', 'module']   # ('module': the child name of DataParallel/DDP wrappers)
    mods = {}
    for i in range(n):
        kind = rng.choice(kinds)
        nm = rng.choice([str(i), rng.choice(names) + (str(i) if rng.random() < 0.5 else '')])
        while nm in mods:
            nm += 'x'
        if kind in ('container', 'modulelist', 'moduledict'):
            if depth >= 3:
                kind = 'linear'
            else:
                sub = random_tree(rng, depth + 1, pool)
                if kind == 'modulelist':
                    sub = nn.ModuleList(list(sub.children()))
                elif kind == 'moduledict':
                    sub = nn.ModuleDict(dict(sub.named_children()))
                mods[nm] = sub
                continue
        if kind == 'shared':
            if pool and rng.random() < 0.8:
                mods[nm] = rng.choice(pool)
                continue
            kind = 'linear'
        if kind == 'tied':
            # weight tying: a DISTINCT module whose weight (and maybe bias) is the very Parameter of an earlier module
            # (embedding/head style), trainable or frozen; eligibility is a property of each module's own parameters
            src = [m_ for m_ in pool if isinstance(m_, nn.Linear) and type(m_) is nn.Linear]
            if src:
                s_ = rng.choice(src)
                m = nn.Linear(s_.in_features, s_.out_features, bias=rng.random() < 0.6)
                m.weight = s_.weight
                if m.bias is not None and s_.bias is not None and rng.random() < 0.5:
                    m.bias = s_.bias
                if rng.random() < 0.5:
                    m.weight.requires_grad_(False)   # freezes the shared tensor: BOTH owners are then not fully trainable
                mods[nm] = m
                continue
            kind = 'linear'
        m = leaf(kind)
        if kind in ('linear', 'conv', 'mylinear', 'linear_nobias'):
            pool.append(m)
        mods[nm] = m
    style = rng.random()
    if style < 0.4:
        return nn.Sequential(*mods.values())
    if style < 0.8:
        return Block(mods)
    return AttentionBlock(mods)


def random_patterns(rng, model):
    names = [n for n, _ in model.named_modules()]
    classes = sorted({m.__class__.__name__ for m in model.modules()})
    pats = []
    for _ in range(rng.choice([0, 0, 1, 1, 2, 3])):
        k = rng.random()
        if k < 0.3 and names:
            n = rng.choice(names)
            pats.append(rng.choice([re.escape(n), '^' + re.escape(n) + '$', re.escape(n.split('.')[-1]), n[:max(1, len(n) // 2)] if n else 'x']))
        elif k < 0.55:
            c = rng.choice(classes)
            pats.append(rng.choice([c, '^' + c + '$', c[:3], c.lower(), c[-4:]]))
        elif k < 0.58 and any(m.__class__.__qualname__ != m.__class__.__name__ for m in model.modules()):
            # patterns that tell the class name from the qualified name: anchored at the name, or naming the enclosing scope only
            pats.append(rng.choice(['^Head$', '^Projection', '^Stem', 'Net', 'locals', '_local_projection', r'^Net\.']))
        elif k < 0.62:
            # patterns whose meaning depends on being compiled on their own: capture groups, back-references, inline flags
            pats.append(rng.choice(['(fc|conv|head)\\d', r'(\d)\.\1', r'(\d)\.(\d)\.\2', '(?i)linear', '(?i)' + rng.choice(names or ['fc']).upper(), r'(a|b)\1', '(?i)CONV',
                                    r'layer(\d)?', '(proj|attn)(\\d)?$']))
        elif k < 0.75:
            pats.append(rng.choice([r'\d', r'^\d+$', r'\.\d$', r'[ab]\d', 'fc|head', r'^.$', r'\.', 'Linear$', '^Linear', 'near', 'conv', 'Conv', r'^$', 'attn.*proj']))
        else:
            pats.append(rng.choice(['0', '1', '2', 'x', 'layer', 'embedding', 'decoder', 'inner']))
    return pats


def expected_registration(model, patterns):
    """Independent walk over _modules: first-visit names, id de-duplication."""
    seen = set()
    out = []

    def walk(m, prefix):
        if id(m) in seen:
            return
        seen.add(id(m))
        kids = [(k, v) for k, v in m._modules.items() if v is not None]
        if not kids:
            ok_type = isinstance(m, (nn.Linear, nn.Conv2d))
            trainable = all(p.requires_grad for p in m.parameters())
            skipped = any(re.search(p, prefix) for p in patterns) or any(re.search(p, type(m).__name__) for p in patterns)
            if ok_type and trainable and not skipped:
                out.append((prefix, m))
            return
        for k, v in kids:
            walk(v, prefix + ('.' if prefix else '') + k)

    walk(model, '')
    return out


# ----------------------------------------------------------------- runnable models
def runnable_model(rng, dtype=torch.float64, allow_conv=True, unsupported=True, max_layers=4, allow_frozen=False, small=True, allow_swap=True):
    """A runnable nn.Sequential. Returns (model, input_shape_without_batch, info)."""
    layers = []
    info = dict(desc=[])
    use_conv = allow_conv and rng.random() < 0.5
    hi = 5 if small else 9
    if use_conv:
        c = rng.randint(1, 3)
        H, W = rng.randint(4, 8), rng.randint(4, 8)
        in_shape = (c, H, W)
        for _ in range(rng.randint(1, 2)):
            co = rng.randint(1, 4)
            kh, kw = rng.randint(1, min(3, H)), rng.randint(1, min(3, W))
            sh, sw = rng.randint(1, 2), rng.randint(1, 2)
            ph, pw = rng.randint(0, 1), rng.randint(0, 1)
            pad_arg = (ph, pw)
            if (sh, sw) == (1, 1) and rng.random() < 0.25:
                pad_arg = rng.choice(['same', 'valid'])   # torch's string paddings (zero padding; stride 1 only)
            conv = (MyConv if rng.random() < 0.15 else nn.Conv2d)(c, co, (kh, kw), (sh, sw), pad_arg, bias=rng.random() < 0.6)
            if isinstance(pad_arg, str):
                ph = pw = 0
                if pad_arg == 'same':
                    H, W = H + kh - 1, W + kw - 1   # so that the size formula below gives H, W back
            layers.append(conv)
            info['desc'].append(f'conv{c}->{co}k{kh}x{kw}s{sh}x{sw}p{pad_arg if isinstance(pad_arg, str) else str(ph) + "x" + str(pw)}b{int(conv.bias is not None)}')
            H = (H + 2 * ph - kh) // sh + 1
            W = (W + 2 * pw - kw) // sw + 1
            c = co
            if unsupported and rng.random() < 0.3 and H * W > 1:
                layers.append(nn.BatchNorm2d(c))
                info['desc'].append('bn')
            layers.append(nn.Tanh())
            if H < 3 or W < 3:
                break
        if rng.random() < 0.35:
            # resolution-free head: the batches of one run may then differ in height and width
            layers.append(nn.AdaptiveAvgPool2d(1))
            layers.append(nn.Flatten())
            feat = c
            in_shape = Shape(in_shape)
            in_shape.var_res = True
            info['desc'].append('gap')
        else:
            layers.append(nn.Flatten())
            feat = c * H * W
        nd = False
    else:
        feat = rng.randint(1, hi)
        nd = rng.random() < 0.35
        in_shape = ((rng.randint(1, 3), feat) if nd else (feat,))
        if nd and rng.random() < 0.4 and allow_swap:
            layers.append(SwapLead())   # the first Linear then receives a transposed (non-contiguous) N-d input
            info['desc'].append('swap')
    nlin = rng.randint(1, max(1, max_layers - (1 if use_conv else 0)))
    for i in range(nlin):
        fo = rng.randint(1, hi)
        lin = (MyLinear if rng.random() < 0.15 else nn.Linear)(feat, fo, bias=rng.random() < 0.6)
        if rng.random() < 0.25 and i > 0 and feat == fo:
            layers.append(Residual(nn.Sequential(lin, nn.Tanh())))
            info['desc'].append(f'res(lin{feat}->{fo}b{int(lin.bias is not None)})')
        else:
            layers.append(lin)
            info['desc'].append(f'lin{feat}->{fo}b{int(lin.bias is not None)}')
        feat = fo
        if i < nlin - 1:
            layers.append(nn.Tanh() if rng.random() < 0.7 else nn.Sigmoid())
            if unsupported and rng.random() < 0.2:
                layers.append(nn.LayerNorm(feat))
                info['desc'].append('ln')
    model = nn.Sequential(*layers).to(dtype)
    info['in_shape'] = in_shape
    info['out_features'] = feat
    return model, in_shape, info


def init_params(model, gen, scale=0.7):
    with torch.no_grad():
        for p in model.parameters():
            p.copy_(torch.randn(p.shape, generator=gen, dtype=torch.float64).to(p.dtype) * scale)
        for m in model.modules():
            if isinstance(m, (nn.LayerNorm, nn.BatchNorm2d)) and m.weight is not None:
                m.weight.add_(1.0)


class KwCall(nn.Module):
    """calls the wrapped layer with its input as a KEYWORD argument (self.inner(input=x)) - legal for every torch module"""

    def __init__(self, inner):
        super().__init__()
        self.inner = inner

    def forward(self, x):
        return self.inner(input=x)


class SwapLead(nn.Module):
    """swaps the two leading dimensions (batch-first <-> sequence-first): what follows sees a NON-contiguous activation"""

    def forward(self, x):
        return x.transpose(0, 1)


class Shape(tuple):
    """input shape; var_res=True marks a model whose batches may vary in spatial size from call to call."""
    var_res = False


def make_batch(gen, batch, in_shape, dtype):
    if getattr(in_shape, 'var_res', False):
        dh, dw = (int(v) for v in torch.randint(0, 4, (2,), generator=gen))
        in_shape = (in_shape[0], in_shape[1] + dh, in_shape[2] + dw)
    return (torch.randn(batch, *in_shape, generator=gen, dtype=torch.float64)).to(dtype)


def loss_fn(kind, out, gen):
    o = out.float() if out.dtype in (torch.float16, torch.bfloat16) else out
    if kind == 'mse':
        return o.pow(2).mean()
    if kind == 'sum':
        return o.sum() * 0.3
    if kind == 'proj':
        w = torch.randn(o.shape, generator=gen, dtype=torch.float64).to(o.dtype)
        return (o * w).mean()
    if kind == 'lse':
        return torch.logsumexp(o.reshape(o.shape[0], -1), dim=1).mean()
    raise ValueError(kind)


def eligible_layers(model):
    """name -> module for the leaves the preconditioner is expected to register (no skip patterns)."""
    return {n: m for n, m in expected_registration(model, [])}
