"""Fidelity check of the simulator against real gloo processes (DESIGN.md section 2.5).

The same scenario spec is run (a) on simdist and (b) as real processes with init_process_group('gloo'); the
torch.distributed entry points are wrapped to log the same event tuple. Per rank and per group the sequence of
(kind, shape, dtype, root) of the non-harness collectives and the final gradients must agree. A disagreement is a
defect of the *simulator* (never of kfac); a gloo timeout is inconclusive/skip.
"""
from __future__ import annotations

import json
import os
import pickle
import subprocess
import sys
import tempfile

from kverif.common import VERIF_ROOT


def rank_main():
    specfile, rank, world, initfile, outfile = sys.argv[1], int(sys.argv[2]), int(sys.argv[3]), sys.argv[4], sys.argv[5]
    import warnings
    warnings.simplefilter('ignore')
    from kverif.common import import_kfac
    import_kfac()
    import torch
    import torch.distributed as dist
    from kverif import scenario, simdist

    with open(specfile) as f:
        spec = json.load(f)
    spec['history'] = [tuple(e) for e in spec['history']]
    for k in ('F', 'I', 'damping', 'decay', 'kl', 'lr'):
        spec['cfg'][k] = tuple(spec['cfg'][k])
    dist.init_process_group('gloo', init_method='file://' + initfile, rank=rank, world_size=world)
    events = []
    stream = open(os.environ['KVERIF_TRACE_FILE'], 'a') if os.environ.get('KVERIF_TRACE_FILE') else None

    def emit(ev):
        events.append(ev)
        if stream is not None:
            # written before the operation is handed to the backend: survives a hang / kill of this rank
            stream.write(json.dumps(ev) + '\n')
            stream.flush()

    def ranks_of(group):
        return tuple(range(world)) if group is None else tuple(dist.get_process_group_ranks(group))

    orig_ar, orig_bc = dist.all_reduce, dist.broadcast

    def all_reduce(tensor, op=dist.ReduceOp.SUM, group=None, async_op=False):
        emit(dict(kind='allreduce', group_ranks=ranks_of(group), shape=tuple(tensor.shape), dtype=str(tensor.dtype), root=None,
                           harness=getattr(simdist._tls, 'harness', False)))
        return orig_ar(tensor, op=op, group=group, async_op=async_op)

    def broadcast(tensor, src=None, group=None, async_op=False, group_src=None):
        emit(dict(kind='broadcast', group_ranks=ranks_of(group), shape=tuple(tensor.shape), dtype=str(tensor.dtype), root=src,
                           harness=getattr(simdist._tls, 'harness', False)))
        return orig_bc(tensor, src=src, group=group, async_op=async_op)

    dist.all_reduce, dist.broadcast = all_reduce, broadcast
    orig_ng = dist.new_group

    def new_group(ranks=None, *a, **kw):
        if stream is not None:
            stream.write(json.dumps(dict(kind='new_group', ranks=None if ranks is None else list(ranks))) + '\n')
            stream.flush()
        return orig_ng(ranks, *a, **kw)
    dist.new_group = new_group
    rec = scenario.rank_fn(spec)(rank, world)
    dist.barrier()
    with open(outfile, 'wb') as f:
        pickle.dump(dict(events=events, grads=[g.clone() for g in rec['grads']],
                         rec={k: rec[k] for k in ('held', 'held_mid', 'mem', 'assignment', 'layer_names', 'steps', 'loads') if k in rec}), f)
    dist.destroy_process_group()


def run_gloo(spec, world, timeout=120):
    tmp = tempfile.mkdtemp(prefix='kverif-gloo-')
    try:
        specfile = os.path.join(tmp, 'spec.json')
        with open(specfile, 'w') as f:
            json.dump(spec, f)
        initfile = os.path.join(tmp, 'init')
        env = dict(os.environ, PYTHONPATH=VERIF_ROOT + os.pathsep + os.environ.get('PYTHONPATH', ''), OMP_NUM_THREADS='1')
        procs = [subprocess.Popen([sys.executable, '-c', 'from kverif.gloo_xval import rank_main; rank_main()', specfile, str(r), str(world), initfile,
                                   os.path.join(tmp, f'out{r}.pkl')], cwd=VERIF_ROOT, env=dict(env, PYTHONHASHSEED=str(7919 * (r + 1))),
                                  stdout=subprocess.PIPE, stderr=subprocess.STDOUT, text=True)
                 for r in range(world)]
        outs = []
        ok = True
        for p in procs:
            try:
                o, _ = p.communicate(timeout=timeout)
                outs.append(o)
                ok = ok and p.returncode == 0
            except subprocess.TimeoutExpired:
                ok = False
                for q in procs:
                    q.kill()
                return None, 'gloo run timed out'
        if not ok:
            return None, 'gloo rank failed: ' + ' | '.join(x[-300:] for x in outs if x)
        res = []
        for r in range(world):
            with open(os.path.join(tmp, f'out{r}.pkl'), 'rb') as f:
                res.append(pickle.load(f))
        return res, None
    finally:
        import shutil
        shutil.rmtree(tmp, ignore_errors=True)


def run_gloo_traced(spec, world, hashseeds, timeout=90):
    """Real gloo ranks as separate interpreters with DIFFERENT hash seeds (as torchrun/mpirun start them); every rank
    streams the collectives it issues to its own log before handing them to the backend. Returns (finished, err, traces):
    the logs are returned also when the run hangs and is killed (a hang is then judged from the logs, not from the clock)."""
    tmp = tempfile.mkdtemp(prefix='kverif-gloo-')
    try:
        specfile = os.path.join(tmp, 'spec.json')
        with open(specfile, 'w') as f:
            json.dump(spec, f)
        initfile = os.path.join(tmp, 'init')
        procs = []
        for r in range(world):
            env = dict(os.environ, PYTHONPATH=VERIF_ROOT + os.pathsep + os.environ.get('PYTHONPATH', ''), OMP_NUM_THREADS='1',
                       PYTHONHASHSEED=str(hashseeds[r]), KVERIF_TRACE_FILE=os.path.join(tmp, f'trace{r}.jsonl'))
            procs.append(subprocess.Popen([sys.executable, '-c', 'from kverif.gloo_xval import rank_main; rank_main()', specfile, str(r), str(world), initfile,
                                           os.path.join(tmp, f'out{r}.pkl')], cwd=VERIF_ROOT, env=env, stdout=subprocess.PIPE, stderr=subprocess.STDOUT, text=True))
        err = None
        outs = []
        import time
        t_end = time.time() + timeout
        for p in procs:
            try:
                o, _ = p.communicate(timeout=max(1, t_end - time.time()))
                outs.append(o)
                if p.returncode != 0 and err is None:
                    err = 'gloo rank failed: ' + (o or '')[-400:]
            except subprocess.TimeoutExpired:
                err = err or 'gloo run timed out'
                break
        for q in procs:
            if q.poll() is None:
                q.kill()
                try:
                    q.communicate(timeout=5)
                except Exception:  # noqa: BLE001
                    pass
        traces = []
        for r in range(world):
            path = os.path.join(tmp, f'trace{r}.jsonl')
            evs = []
            if os.path.exists(path):
                for ln in open(path):
                    try:
                        evs.append(json.loads(ln))
                    except ValueError:
                        pass
            traces.append(evs)
        return err is None, err, traces
    finally:
        import shutil
        shutil.rmtree(tmp, ignore_errors=True)


def match_traces(traces, finished):
    """Offline matcher over the per-rank logs: every group's members must have issued the same sequence of
    (kind, shape, dtype, root) on that group - position by position over the common prefix, and the same number of
    operations if all ranks finished; new_group calls must be the same sequence on all ranks. Returns list of strings."""
    bad = []
    W = len(traces)
    ng = [[tuple(e['ranks']) if e['ranks'] is not None else None for e in t if e['kind'] == 'new_group'] for t in traces]
    for r in range(1, W):
        n = min(len(ng[0]), len(ng[r]))
        if ng[0][:n] != ng[r][:n] or (finished and len(ng[0]) != len(ng[r])):
            bad.append(f'new_group sequences differ between rank 0 {ng[0][:6]} and rank {r} {ng[r][:6]}')
            break
    per = {}
    for r, t in enumerate(traces):
        for e in t:
            if e['kind'] == 'new_group':
                continue
            per.setdefault(tuple(e['group_ranks']), {}).setdefault(r, []).append((e['kind'], tuple(e['shape']), e['dtype'], e['root']))
    compared = 0
    for g, by_rank in sorted(per.items()):
        members = [r for r in g]
        seqs = {r: by_rank.get(r, []) for r in members}
        base = members[0]
        for r in members[1:]:
            n = min(len(seqs[base]), len(seqs[r]))
            compared += n
            for i in range(n):
                if seqs[base][i] != seqs[r][i]:
                    bad.append(f'group {list(g)}: operation #{i} is {seqs[base][i]} on rank {base} but {seqs[r][i]} on rank {r}')
                    break
            else:
                if finished and len(seqs[base]) != len(seqs[r]):
                    bad.append(f'group {list(g)}: rank {base} issued {len(seqs[base])} operations, rank {r} {len(seqs[r])}')
            if bad:
                break
        if bad:
            break
    return bad, compared


def compare(spec, world, sim_run, gloo_res):
    """Returns list of disagreement strings (empty = traces and gradients agree)."""
    import torch
    bad = []
    for r in range(world):
        sim_seq = {}
        for e in sim_run.trace:
            if e['rank'] != r or e['kind'] == 'new_group' or e.get('harness'):
                continue
            sim_seq.setdefault(tuple(e['group_ranks']), []).append((e['kind'], tuple(e['shape']), e['dtype'], e['root']))
        g_seq = {}
        for e in gloo_res[r]['events']:
            if e['harness']:
                continue
            g_seq.setdefault(tuple(e['group_ranks']), []).append((e['kind'], tuple(e['shape']), e['dtype'], e['root']))
        if sim_seq != g_seq:
            keys = sorted(set(sim_seq) | set(g_seq))
            for k in keys:
                if sim_seq.get(k) != g_seq.get(k):
                    bad.append(f'rank {r}, group {k}: simulator saw {len(sim_seq.get(k, []))} ops, gloo {len(g_seq.get(k, []))}; first difference: '
                               f'{next(((a, b) for a, b in zip(sim_seq.get(k, []), g_seq.get(k, [])) if a != b), "length")}')
                    break
        for st, (a, b) in enumerate(zip(sim_run.results[r]['grads'], gloo_res[r]['grads'])):
            if not torch.allclose(a, b, rtol=1e-6, atol=1e-9):
                bad.append(f'rank {r}, step {st}: gradients differ between simulator and gloo by {(a - b).abs().max().item():.3e}')
                break
    return bad
