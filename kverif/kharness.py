"""Single-process harness: generated model + real KFACPreconditioner + capture + RefKFAC in lock-step."""
from __future__ import annotations

import math
import warnings

import torch

from kverif import gen
from kverif import refmodel as rm

EXT: dict = {}   # external state read by ('ext', key) hyper-parameter callables
DT = {'float32': torch.float32, 'float64': torch.float64, 'bfloat16': torch.bfloat16, 'float16': torch.float16, None: None}


# ----------------------------------------------------------------- callables from descriptors
def mk(desc):
    """Materialise a JSON-able hyper-parameter descriptor."""
    kind = desc[0]
    if kind == 'const':
        return desc[1]
    if kind == 'none':
        return None
    if kind == 'ext':
        # a callable that ignores the step and reads external state (e.g. `lambda s: optimizer.param_groups[0]['lr']`)
        key = desc[1]
        f = lambda s: EXT[key]  # noqa: E731
        f.__kv_name__ = str(desc)
        return f
    if kind == 'mod':
        base, m = desc[1], desc[2]
        f = lambda s: base + s % m  # noqa: E731
    elif kind == 'lin':
        a, b = desc[1], desc[2]
        f = lambda s: a * (1 + b * s)  # noqa: E731
    elif kind == 'cyc':
        a, b, m = desc[1], desc[2], desc[3]
        f = lambda s: a - b * (s % m)  # noqa: E731
    elif kind == 'inv':
        a = desc[1]
        f = lambda s: a / (1 + s)  # noqa: E731
    elif kind == 'expdecay':
        cap = desc[1]
        f = lambda s: min(1 - 1 / max(s, 1), cap) if s > 1 else 0.5  # noqa: E731
    else:
        raise ValueError(desc)
    f.__kv_name__ = str(desc)
    return f


def log_uniform(rng, lo, hi):
    return math.exp(rng.uniform(math.log(lo), math.log(hi)))


def make_config(rng, *, callables=True, dtypes=('float64',), factor_dtypes=(None,), inv_dtypes=('float32',), intervals='any',
                kl=('const', 'big', 'callable'), scaler=False, max_acc=3):
    method = rng.choice(['eigen', 'inverse'])
    prediv = rng.random() < 0.5
    cfg = dict(method=method, method_as_str=rng.random() < 0.3, prediv=prediv,
               colocate=True if (method == 'eigen' and prediv) else rng.random() < 0.5,
               hook=rng.random() < 0.5, acc=rng.randint(1, max_acc),
               pdt=rng.choice(dtypes), fdt=rng.choice(factor_dtypes), idt=rng.choice(inv_dtypes),
               cap=rng.choice([0.0, 1e-6, 0.0005, 25.0]), sym=rng.random() < 0.3,
               strategy=rng.choice(['COMPUTE', 'MEMORY', 'compute', 'memory', 'Memory', 'enum:COMPUTE', 'enum:MEMORY']), loss=rng.choice(['mse', 'proj', 'lse', 'sum']), batch=rng.randint(1, 8))
    if intervals == 'divides':
        I = rng.choice([1, 2, 3])
        F = I * rng.choice([1, 1, 2])
        cfg['F'], cfg['I'] = ('const', F), ('const', I)
    elif intervals == 'one':
        cfg['F'], cfg['I'] = ('const', 1), ('const', 1)
    else:
        cfg['F'] = rng.choice([('const', rng.randint(1, 5)), ('const', 1), ('mod', 1, 3)] if callables else [('const', rng.randint(1, 5))])
        cfg['I'] = rng.choice([('const', rng.randint(1, 5)), ('const', 2), ('mod', 2, 2), ('mod', 1, 3)] if callables else [('const', rng.randint(1, 5))])
    dmp = log_uniform(rng, 1e-3, 10.0)
    cfg['damping'] = ('lin', round(dmp, 6), 1.0) if (callables and rng.random() < 0.3) else ('const', round(dmp, 6))
    dec = rng.choice([0.95, 0.9, 0.5, 0.3, 1.0, round(rng.uniform(0.05, 0.99), 3)])
    cfg['decay'] = rng.choice([('cyc', 0.95, 0.02, 5), ('expdecay', 0.95)]) if (callables and rng.random() < 0.3) else ('const', dec)
    klk = rng.choice(kl)
    cfg['kl'] = {'const': ('const', rng.choice([1e-3, 1e-2, 1e-4])), 'big': ('const', 1e9), 'callable': ('lin', 1e-3, 1.0), 'none': ('none',)}[klk]
    cfg['lr'] = ('inv', 0.1) if (callables and rng.random() < 0.3) else ('const', rng.choice([0.1, 1.0, 0.01]))
    cfg['scale'] = rng.choice([1.0, 128.0, 65536.0]) if scaler else None
    cfg['scaler_object'] = bool(scaler and rng.random() < 0.5)
    cfg['scale_schedule'] = ([rng.choice([1.0, 2.0, 128.0, 512.0, 1024.0, 65536.0]) for _ in range(rng.randint(2, 4))] if (scaler and rng.random() < 0.5) else None)
    return cfg


def _strategy(v):
    if isinstance(v, str) and v.startswith('enum:'):
        from kfac.enums import AssignmentStrategy
        return AssignmentStrategy[v[5:]]
    return v


def precond_kwargs(cfg, scale_holder=None):
    from kfac.enums import ComputeMethod
    kw = dict(
        factor_update_steps=mk(cfg['F']), inv_update_steps=mk(cfg['I']), damping=mk(cfg['damping']), factor_decay=mk(cfg['decay']),
        kl_clip=mk(cfg['kl']), lr=mk(cfg['lr']), accumulation_steps=cfg['acc'], allreduce_bucket_cap_mb=cfg['cap'],
        assignment_strategy=_strategy(cfg['strategy']),
        colocate_factors=cfg['colocate'],
        compute_method=(cfg['method'] if cfg['method_as_str'] else ComputeMethod[cfg['method'].upper()]),
        compute_eigenvalue_outer_product=cfg['prediv'], symmetry_aware=cfg['sym'], update_factors_in_hook=cfg['hook'],
        factor_dtype=DT[cfg['fdt']], inv_dtype=DT[cfg['idt']],
    )
    if cfg.get('scale'):
        holder = scale_holder if scale_holder is not None else [cfg['scale']]
        kw['grad_scaler'] = lambda: holder[0]
        if cfg.get('scaler_object') and cfg['scale'] == 1.0 and not cfg.get('scale_schedule'):
            # a real (disabled, CPU) torch GradScaler object: its get_scale() is 1.0
            kw['grad_scaler'] = torch.cuda.amp.GradScaler(enabled=False)
    if 'frac' in cfg:
        kw['grad_worker_fraction'] = cfg['frac']
    return kw


def perturbed_kwargs(kw, rng):
    """Constructor arguments of a FRESH preconditioner that is going to load a checkpoint: every scalar (non-callable)
    hyper-parameter is given another value than the saved run had; load_state_dict must restore the saved ones. Callables
    are not part of the state and stay as they are."""
    kw = dict(kw)
    for k, f in (('damping', lambda v: v * 3 + 1e-3), ('factor_decay', lambda v: 0.77 if v != 0.77 else 0.5), ('lr', lambda v: v * 2 + 0.01),
                 ('factor_update_steps', lambda v: v + 1), ('inv_update_steps', lambda v: v + 2)):
        if not callable(kw[k]) and rng.random() < 0.7:
            kw[k] = f(kw[k])
    if not callable(kw['kl_clip']) and rng.random() < 0.7:
        kw['kl_clip'] = 0.001 if kw['kl_clip'] is None else rng.choice([None, kw['kl_clip'] * 5])
    return kw


def ref_hp(cfg):
    return dict(F=mk(cfg['F']), I=mk(cfg['I']), damping=mk(cfg['damping']), decay=mk(cfg['decay']), kl=mk(cfg['kl']), lr=mk(cfg['lr']))


class ConfigRejected(Exception):
    pass


class LowPrecisionSingular(Exception):
    """(factor + damping I) is exactly singular after rounding to a bfloat16/float16 dtype: skipped, counted."""


def step(p, cfg):
    """p.step(), turning a low-precision singular-matrix error into a skipped case."""
    try:
        p.step()
    except Exception as e:  # noqa: BLE001
        if is_lowprec_singular(e, cfg):
            raise LowPrecisionSingular(str(e)[:80]) from None
        raise


class NonFiniteData(Exception):
    """torch produced non-finite activations/gradients for finite inputs (seen sporadically with bfloat16 CPU kernels);
    the case is outside every property's quantifier and is skipped (counted)."""


class Session:
    def __init__(self, rng, cfg, *, model=None, in_shape=None, unsupported=True, allow_conv=True, small=True, with_ref=True, skip_layers=None):
        self.cfg = cfg
        self.rng = rng
        pdt = DT[cfg['pdt']]
        self.gen = torch.Generator().manual_seed(rng.randrange(2 ** 31))
        if model is None:
            model, in_shape, info = gen.runnable_model(rng, dtype=pdt, allow_conv=allow_conv, unsupported=unsupported, small=small)
            gen.init_params(model, self.gen)
            self.info = info
        else:
            self.info = dict(desc=['given'])
        self.model = model
        self.in_shape = in_shape
        self.pdt = pdt
        self.layers = gen.expected_registration(model, skip_layers or [])
        self.layers = {n: m for n, m in self.layers}
        self.capture = rm.Capture(self.layers)
        self.scale_holder = [cfg.get('scale') or 1.0]
        self.iteration = 0
        kw = precond_kwargs(cfg, self.scale_holder)
        if skip_layers:
            kw['skip_layers'] = skip_layers
        from kfac.preconditioner import KFACPreconditioner
        with warnings.catch_warnings():
            warnings.simplefilter('ignore')
            try:
                self.p = KFACPreconditioner(model, **kw)
            except ValueError as e:
                raise ConfigRejected(str(e))
        self.kw = kw
        self.ref = None
        if with_ref:
            self.ref = rm.RefKFAC(list(self.layers), cfg['method'], cfg['prediv'] and cfg['method'] == 'eigen', ref_hp(cfg), cfg['acc'], cfg['hook'])

    # -- events ------------------------------------------------------------
    def fwd_bwd(self, train=True, batch=None):
        b = batch if batch is not None else self.cfg['batch']
        x = gen.make_batch(self.gen, b, self.in_shape, self.pdt)
        self.capture.clear()
        out = self.model(x)
        loss = gen.loss_fn(self.cfg['loss'], out, self.gen)
        scale = self.scale_holder[0]
        (loss * scale).backward()
        for t in list(self.capture.inp.values()) + list(self.capture.gout.values()):
            if not torch.isfinite(t).all():
                raise NonFiniteData()
        if self.ref is not None and train and self.model.training:
            self.ref.forward_backward(self.capture.moments(scale))
        return out

    def train_iteration(self, vary_batch=True):
        self.model.train()
        # half of the sessions keep the gradient tensors and zero them in place (zero_grad(set_to_none=False)), the others
        # drop them (the default): code that identifies a gradient by the tensor object must cope with both
        if not hasattr(self, 'zero_in_place'):
            self.zero_in_place = self.rng.random() < 0.5
        self.model.zero_grad(set_to_none=not self.zero_in_place)
        sched = self.cfg.get('scale_schedule')
        if self.cfg.get('scale') and sched:
            # dynamic loss scaling: the scale changes between optimisation steps (never inside one)
            self.scale_holder[0] = sched[self.iteration % len(sched)]
        self.iteration += 1
        for i_ in range(self.cfg['acc']):
            self.fwd_bwd(True, batch=((self.rng.choice([129, 200, 257]) if self.rng.random() < 0.03 else self.rng.randint(1, 8)) if vary_batch else None))
            if i_ < self.cfg['acc'] - 1 and getattr(self, 'between', None) is not None:
                self.between()   # something else happens in the process between two micro-batches of this accumulation window
        scale = self.scale_holder[0]
        if scale != 1.0:
            with torch.no_grad():
                for q in self.model.parameters():
                    if q.grad is not None:
                        q.grad /= scale

    def forward_only(self, batch=None):
        """Train-mode forward without backward (e.g. a target computation or the first pass of activation checkpointing)."""
        x = gen.make_batch(self.gen, batch or self.cfg['batch'], self.in_shape, self.pdt)
        self.capture.clear()
        with torch.no_grad():
            self.model(x)
        if self.ref is not None:
            self.ref.forward_only(self.capture.moments_a())

    def eval_pass(self):
        self.model.eval()
        self.fwd_bwd(False)
        self.model.train()

    def grads(self):
        return {n: rm.combined_grad(m) for n, m in self.layers.items()}

    def factors(self):
        sd = self.p.state_dict()['layers']
        return {n: (sd[n]['A'], sd[n]['G']) for n in self.layers}

    def damping_now(self):
        return self.p.damping


def factor_dtype(cfg):
    """Effective factor dtype: the requested one, else the activation (= parameter) dtype."""
    return DT[cfg['fdt']] if cfg.get('fdt') else DT[cfg['pdt']]


def low_precision(cfg):
    lp = (torch.bfloat16, torch.float16)
    return factor_dtype(cfg) in lp or DT[cfg['idt']] in lp


def eps_eff(cfg, with_factor=True):
    e = [rm.eps_of(torch.float32), rm.eps_of(DT[cfg['idt']])]
    if with_factor:
        e.append(rm.eps_of(factor_dtype(cfg)))
    return max(e)


def is_lowprec_singular(exc, cfg):
    """(G + damping I) rounded to a bfloat16/float16 factor dtype can be exactly singular (the damping is below the
    dtype's resolution); kfac then raises LinAlgError. That is outside the regime where a conditioning-scaled tolerance is
    meaningful; such cases are skipped and counted, never judged."""
    return low_precision(cfg) and type(exc).__name__ in ('LinAlgError', '_LinAlgError')


def tol_for(cfg, kappa, maxdim, with_factor=True):
    c = max(256.0, 64.0 * math.sqrt(maxdim))   # calibrated on ~2e5 cases of the unchanged tree: worst observed error / (eps * kappa) was ~115
    return 4 * rm.eps_of(DT[cfg['pdt']]) + c * eps_eff(cfg, with_factor) * kappa


def rel_err(got, exp):
    """Relative error in the Frobenius norm. Norms below 1e-30 are compared absolutely against that floor: float32 data
    of that magnitude lives in the denormal range (products underflow), where a relative bound is meaningless."""
    d = float((got - exp).norm())
    n = float(exp.norm())
    if n == 0:
        return 0.0 if d <= 1e-30 else float('inf')
    return d / max(n, 1e-30)


def call_case(res, fn, *args, case=None, **kw):
    """Run one case; an exception raised from inside the code under test during a valid use is a violation
    candidate (the guarantee was not delivered); anything else is a harness problem and propagates (inconclusive)."""
    import traceback
    from kverif.common import REPO
    try:
        return fn(*args, **kw)
    except NonFiniteData:
        res.skip('torch produced non-finite data for finite inputs')
    except ConfigRejected as e:
        res.skip('constructor rejected: ' + str(e)[:40])
    except LowPrecisionSingular:
        res.skip('factor + damping exactly singular in the requested low precision')
    except Exception:  # noqa: BLE001
        tb = traceback.format_exc()
        if (REPO.rstrip('/') + '/kfac/') not in tb:
            raise
        ls = tb.strip().splitlines()
        fi = max([i for i, l in enumerate(ls) if l.startswith('  File ')] or [0])
        res.violation('a valid use raised inside kfac: ' + ' | '.join(x.strip() for x in ls[fi:fi + 4]), case if case is not None else dict(args=[a for a in args if isinstance(a, (int, str))]))
