"""GPT-NeoX kit: DeepSpeed topology stand-in (stubs/deepspeed), Megatron-style
Column/RowParallelLinear stand-ins on the simulated collectives, sharded runs of
the real GPTNeoXKFACPreconditioner and the unsharded reference run.

spec = dict(pp, dp, mp, blocks=[...per stage list of 'mlp'|'col'|'row'], sizes, bias, steps/history, kl, cap, ...)
"""
from __future__ import annotations

import copy
import os
import random
import shutil
import tempfile
import warnings

import torch
import torch.distributed as dist
import torch.nn.functional as F

from kverif import simdist


# ------------------------------------------------------------------ parallel regions
def _mp_allreduce(t, group):
    with simdist.harness():
        dist.all_reduce(t, group=group)
    return t


class _CopyToMP(torch.autograd.Function):
    @staticmethod
    def forward(ctx, x, group, size):
        ctx.group, ctx.size = group, size
        return x.view_as(x)

    @staticmethod
    def backward(ctx, g):
        if ctx.size > 1:
            g = _mp_allreduce(g.contiguous().clone(), ctx.group)
        return g, None, None


class _ReduceFromMP(torch.autograd.Function):
    @staticmethod
    def forward(ctx, x, group, size):
        if size > 1:
            x = _mp_allreduce(x.contiguous().clone(), group)
        return x

    @staticmethod
    def backward(ctx, g):
        return g, None, None


class ColumnParallelLinear(torch.nn.Linear):
    """Output features sharded over the model-parallel group (gather_output=False)."""

    mp_group = None
    mp_size = 1

    def forward(self, x):
        x = _CopyToMP.apply(x, self.mp_group, self.mp_size)
        return F.linear(x, self.weight, self.bias)


class RowParallelLinear(torch.nn.Linear):
    """Input features sharded (input_is_parallel=True); bias added after the reduction."""

    mp_group = None
    mp_size = 1

    def forward(self, x):
        part = F.linear(x, self.weight)
        tot = _ReduceFromMP.apply(part, self.mp_group, self.mp_size)
        return tot + self.bias if self.bias is not None else tot


# ------------------------------------------------------------------ spec generation
def topologies(max_world):
    out = []
    for pp in (1, 2, 3):
        for dp in (1, 2, 3, 4):
            for mp in (1, 2, 3, 4):
                if pp * dp * mp <= max_world:
                    out.append((pp, dp, mp))
    return out


def gen_spec(rng, max_world=8, checkpoint=False, clip=None, topo=None, deep=0.1):
    pp, dp, mp = topo or rng.choice([t for t in topologies(max_world) if t[0] <= 2])
    unit = mp * rng.choice([1, 2])
    nblocks = rng.randint(1, 2)
    is_deep = rng.random() < deep   # many layers: global layer names such as '1' and '10' (one is a substring of the other)
    blocks = []
    for s in range(pp):
        if is_deep:
            b = ['mlp'] * rng.randint(5, 7)
        else:
            b = [rng.choice(['mlp', 'mlp', 'col', 'row'])] if nblocks == 1 else ['mlp', rng.choice(['mlp', 'col'])]
        blocks.append(b)
    spec = dict(pp=pp, dp=dp, mp=mp, blocks=blocks, d_in=rng.randint(2, 4), hidden=unit * rng.randint(1, 2), d_out=rng.randint(2, 4),
                bias=rng.random() < 0.6, batch=rng.randint(1, 4), kl=(clip if clip is not None else rng.choice([1e9, 1e-3])),
                cap=rng.choice([0.0, 1e-6, 25.0]), damping=rng.choice([0.01, 0.1, 1.0]), F=rng.choice([1, 1, 2]), I=rng.choice([1, 1, 2]),
                hook=rng.random() < 0.5, acc=rng.choice([1, 1, 2]), strategy=rng.choice(['COMPUTE', 'MEMORY']),
                model_seed=rng.randrange(10 ** 6), data_seed=rng.randrange(10 ** 6), factor_dir=False, sym=rng.random() < 0.3)
    if pp > 1 and not is_deep and rng.random() < 0.15:
        # a pipeline stage without any K-FAC layer (only embeddings / norms in a real model): its ranks register nothing but
        # must still take part in every collective of the job
        spec['blocks'][rng.randrange(pp)] = []
    spec['layers'] = [len(kinds_of(spec, st)) for st in range(pp)]
    # bias per layer (a stage may mix layers with and without bias); spec['bias'] stays the summary flag
    if spec['bias'] and rng.random() < 0.4:
        spec['biases'] = [[rng.random() < 0.5 for _ in range(n)] for n in spec['layers']]
    else:
        spec['biases'] = [[spec['bias']] * n for n in spec['layers']]
    spec['fdt'] = 'float32' if rng.random() < 0.25 else None
    # a loss scale handed to the preconditioner through grad_scaler (the sharded run scales the loss and unscales the gradients
    # before step(); the unsharded reference uses no scale at all)
    spec['scale'] = rng.choice([128.0, 1024.0, 65536.0]) if rng.random() < 0.25 else None
    # a damping that changes from step to step (callable), also between two inverse updates; multipliers >= 1, so
    # spec['damping'] stays the smallest damping of the run (the one the conditioning estimates use)
    spec['damping_mult'] = [1.0, rng.choice([1.5, 3.0]), rng.choice([2.0, 10.0])] if rng.random() < 0.25 else None   # a factor dtype different from the (float64) weight dtype
    hist = [('train',)] * rng.randint(1, 4)
    if checkpoint:
        pos = rng.randint(1, len(hist))
        spec['factor_dir'] = rng.random() < 0.4
        hist = hist[:pos] + [('ckpt', rng.random() < 0.8 or spec['I'] != 1)] + hist[pos:] + [('train',)]
        if rng.random() < 0.3:
            hist.append(('sd_only',))
    spec['history'] = hist
    return spec


# ------------------------------------------------------------------ model construction
def damping_of(spec):
    if spec.get('damping_mult'):
        mult, d0 = list(spec['damping_mult']), spec['damping']
        return lambda step: d0 * mult[step % len(mult)]
    return spec['damping']


def kinds_of(spec, stage):
    out = []
    for b in spec['blocks'][stage]:
        out += ['col', 'row'] if b == 'mlp' else [b]
    return out


def full_weights(spec, stage):
    """Full (unsharded) weights of a stage: list of (kind, W, b)."""
    g = torch.Generator().manual_seed(spec['model_seed'] * 10 + stage)
    out = []
    cur = stage_input_dim(spec, stage)
    biases = spec.get('biases', [[spec['bias']] * len(kinds_of(spec, st)) for st in range(spec['pp'])])[stage]
    for li, kind in enumerate(kinds_of(spec, stage)):
        fout = spec['hidden'] if kind == 'col' else spec['d_out']
        W = torch.randn(fout, cur, generator=g, dtype=torch.float64) * 0.6
        bvec = torch.randn(fout, generator=g, dtype=torch.float64) * 0.3
        if not biases[li]:
            bvec = None
        out.append((kind, W, bvec))
        cur = fout
    return out


def stage_input_dim(spec, stage):
    if not spec['blocks'][stage]:
        return spec['d_in']
    first = spec['blocks'][stage][0]
    return spec['hidden'] if first == 'row' else spec['d_in']


def build_sharded(spec, stage, m, mp_group):
    mods = []
    mp = spec['mp']
    for kind, W, b in full_weights(spec, stage):
        if kind == 'col':
            h = W.shape[0] // mp
            mod = ColumnParallelLinear(W.shape[1], h, bias=b is not None).double()
            with torch.no_grad():
                mod.weight.copy_(W[m * h:(m + 1) * h])
                if b is not None:
                    mod.bias.copy_(b[m * h:(m + 1) * h])
        else:
            h = W.shape[1] // mp
            mod = RowParallelLinear(h, W.shape[0], bias=b is not None).double()
            with torch.no_grad():
                mod.weight.copy_(W[:, m * h:(m + 1) * h])
                if b is not None:
                    mod.bias.copy_(b)
        mod.mp_group, mod.mp_size = mp_group, mp
        mods.append(mod)
    return mods


def build_full(spec, stage):
    mods = []
    for kind, W, b in full_weights(spec, stage):
        mod = torch.nn.Linear(W.shape[1], W.shape[0], bias=b is not None).double()
        with torch.no_grad():
            mod.weight.copy_(W)
            if b is not None:
                mod.bias.copy_(b)
        mods.append(mod)
    return mods


def forward_chain(mods, kinds, x, m=None, mp=1):
    """x is the full stage input; for a leading 'row' each rank takes its slice."""
    sharded = False
    for i, (mod, kind) in enumerate(zip(mods, kinds)):
        if kind == 'row' and not sharded and m is not None:
            h = x.shape[-1] // mp
            x = x[..., m * h:(m + 1) * h]
        x = mod(x)
        sharded = (kind == 'col') and m is not None
        if i < len(mods) - 1:
            x = torch.tanh(x)
    return x


def loss_of(out, full_width, batch):
    return out.pow(2).sum() / (batch * full_width)


# ------------------------------------------------------------------ the sharded rank function
def make_groups(topo, rank):
    dpg = mpg = ppg = None
    for ranks in topo.get_axis_comm_lists('data'):
        g = dist.new_group(ranks)
        if rank in ranks:
            dpg = g
    for ranks in topo.get_axis_comm_lists('model'):
        g = dist.new_group(ranks)
        if rank in ranks:
            mpg = g
    if topo.get_dim('pipe') > 1:
        for ranks in topo.get_axis_comm_lists('pipe'):
            g = dist.new_group(ranks)
            if rank in ranks:
                ppg = g
    return dpg, mpg, ppg


def sharded_rank_fn(spec, tmpdir=None):
    def fn(rank, world):
        from deepspeed.pipe import PipelineModule
        from deepspeed.runtime.pipe.topology import PipeModelDataParallelTopology
        from kfac.gpt_neox.preconditioner import GPTNeoXKFACPreconditioner

        topo = PipeModelDataParallelTopology(num_pp=spec['pp'], num_mp=spec['mp'], num_dp=spec['dp'])
        c = topo.get_coord(rank)
        dpg, mpg, ppg = make_groups(topo, rank)
        kinds = [k for k, _, _ in full_weights(spec, c.pipe)]
        width_last = full_weights(spec, c.pipe)[-1][1].shape[0] if kinds else None

        def build():
            mods = build_sharded(spec, c.pipe, c.model, mpg)
            model = PipelineModule(mods, topo, offset=sum(spec['layers'][:c.pipe]))
            with warnings.catch_warnings():
                warnings.simplefilter('ignore')
                p = GPTNeoXKFACPreconditioner(
                    model, data_parallel_group=dpg, model_parallel_group=mpg, pipeline_parallel_group=ppg,
                    damping=damping_of(spec), kl_clip=spec['kl'], lr=spec.get('lr', 0.1), allreduce_bucket_cap_mb=spec['cap'],
                    factor_update_steps=spec['F'], inv_update_steps=spec['I'], update_factors_in_hook=spec['hook'],
                    accumulation_steps=spec['acc'], assignment_strategy=spec['strategy'], symmetry_aware=spec['sym'],
                    factor_dtype=(getattr(torch, spec['fdt']) if spec.get('fdt') else None),
                    factor_checkpoint_dir=(tmpdir if spec.get('factor_dir') else None),
                    **({'grad_scaler': (lambda: spec['scale'])} if spec.get('scale') else {}))
            return model, mods, p

        model, mods, p = build()
        gen = torch.Generator().manual_seed(spec['data_seed'] * 100 + c.pipe * 10 + c.data)
        rec = dict(grads=[], factors=[], coord=(c.pipe, c.data, c.model), sd=[], names=[n for n, _ in p._layers.values()], second_order=[], steps=[])
        a = p._assignment
        rec['assignment'] = {n: dict(inv=a.inv_worker(n, 'A'), factor_worker=a.factor_worker(n, 'A'), src=a.src_grad_worker(n), is_gw=a.is_grad_worker(n))
                             for n in a.get_layers()}
        step_no = 0
        kept_loaded = []   # (index into rec['sd'], the state object that was loaded): looked at again when the history is over
        din = stage_input_dim(spec, c.pipe)
        for ei, ev in enumerate(spec['history']):
            simdist.phase((ev[0], step_no, ei))
            if ev[0] == 'train':
                model.zero_grad()
                for _ in range(spec['acc']):
                    x = torch.randn(spec['batch'], din, generator=gen, dtype=torch.float64)
                    if mods:   # a stage without K-FAC layers has nothing to train here
                        out = forward_chain(mods, kinds, x, c.model, spec['mp'])
                        (loss_of(out, width_last, spec['batch']) * (spec.get('scale') or 1.0)).backward()
                if spec.get('scale'):
                    with torch.no_grad():
                        for q in model.parameters():
                            q.grad /= spec['scale']
                with simdist.harness():
                    for q in model.parameters():
                        if spec['dp'] > 1:
                            dist.all_reduce(q.grad, group=dpg)
                            q.grad /= spec['dp']
                simdist.phase(('step', step_no, ei))
                p.step()
                simdist.phase(('after', step_no, ei))
                rec['grads'].append([(m.weight.grad.clone(), None if m.bias is None else m.bias.grad.clone()) for m in mods])
                rec['steps'].append(p.steps)
                fac = {}
                if spec.get('readback_steps') is None or step_no in spec['readback_steps']:
                    for n, layer in p._layers.values():
                        if rank == a.inv_worker(n, 'A'):
                            fac[n] = (layer.a_factor.clone(), layer.g_factor.clone())   # reading waits on the factor futures
                rec['factors'].append(fac)
                if spec.get('sgd_lr'):
                    with torch.no_grad():
                        for q in model.parameters():
                            q -= spec['sgd_lr'] * q.grad
                step_no += 1
            elif ev[0] in ('ckpt', 'sd_only'):
                sd = p.state_dict()
                held = {n: (layer.a_factor.clone(), layer.g_factor.clone()) for n, layer in p._layers.values()
                        if rank == a.inv_worker(n, 'A') and layer.a_factor is not None}
                files = contents = None
                if tmpdir:
                    # saving to a directory has no trailing barrier; the harness joins all ranks (a resume is a new job)
                    with simdist.harness():
                        dist.barrier()
                    files = sorted(os.listdir(tmpdir)) if os.path.isdir(tmpdir) else []
                    contents = {f: torch.load(os.path.join(tmpdir, f)) for f in files}
                rec['sd'].append(dict(event=ei, state=_clone_sd(sd), held=held, files=files, file_contents=contents, steps=p.steps))
                if ev[0] == 'ckpt':
                    # a resume is a new job: all ranks join before anybody loads
                    with simdist.harness():
                        dist.barrier()
                    weights = [q.detach().clone() for q in model.parameters()]
                    model, mods, p = build()
                    with torch.no_grad():
                        for q, w in zip(model.parameters(), weights):
                            q.copy_(w)
                    a = p._assignment
                    # the object that is loaded is either a copy or the very dict state_dict() returned (an in-memory checkpoint
                    # that may be loaded again later): loading must leave it as it was
                    loaded_obj = sd if spec.get('load_same_object') else copy.deepcopy(sd)
                    p.load_state_dict(loaded_obj, compute_inverses=ev[1])
                    if spec.get('load_old_between') and not tmpdir and len(rec['sd']) >= 2:
                        # in-memory checkpoints: an older state is loaded as well (a rollback that is then undone), and the
                        # checkpoint once more - no factor update in between; every loaded object must stay what it was
                        j_old = len(rec['sd']) - 2
                        old_obj = copy.deepcopy(rec['sd'][j_old]['state'])
                        p.load_state_dict(old_obj, compute_inverses=ev[1])
                        p.load_state_dict(loaded_obj, compute_inverses=ev[1])
                        rec['sd'][-1]['reloaded_after_older'] = True
                        kept_loaded.append((j_old, old_obj))
                    saved = rec['sd'][-1]['state']
                    intact = set(loaded_obj) == set(saved)
                    if intact and 'layers' in saved:
                        intact = set(loaded_obj['layers']) == set(saved['layers']) and all(
                            torch.equal(loaded_obj['layers'][n_][f_], saved['layers'][n_][f_]) for n_ in saved['layers'] for f_ in ('A', 'G') if saved['layers'][n_][f_] is not None)
                    rec['sd'][-1]['loaded_state_intact'] = (intact, sorted(set(saved) - set(loaded_obj)))
                    kept_loaded.append((len(rec['sd']) - 1, loaded_obj))
                    after = {}
                    for n, layer in p._layers.values():
                        after[n] = dict(A=None if layer.a_factor is None else layer.a_factor.clone(),
                                        G=None if layer.g_factor is None else layer.g_factor.clone(),
                                        has_second_order=layer.qa is not None and layer.qg is not None)
                    rec['sd'][-1]['after_load'] = after
                    rec['sd'][-1]['steps_after_load'] = p.steps
        for k_, obj in kept_loaded:
            # training went on after the load: the loaded object must still hold what was saved (it may be loaded again)
            saved = rec['sd'][k_]['state']
            ok = set(obj) == set(saved)
            if ok and 'layers' in saved:
                ok = all(torch.equal(obj['layers'][n_][f_], saved['layers'][n_][f_]) for n_ in saved['layers'] for f_ in ('A', 'G') if saved['layers'][n_][f_] is not None)
            rec['sd'][k_]['loaded_state_intact_at_end'] = ok
        return rec
    return fn


def _clone_sd(sd):
    out = {}
    for k, v in sd.items():
        if k == 'layers':
            out[k] = {n: {f: (None if t is None else t.clone()) for f, t in d.items()} for n, d in v.items()}
        else:
            out[k] = v
    return out


def run(spec, seed=0, policy='random', stress=False):
    W = spec['pp'] * spec['dp'] * spec['mp']
    tmp = None
    if spec.get('factor_dir'):
        tmp = tempfile.mkdtemp(prefix='kverif-neox-')
        shutil.rmtree(tmp)  # the preconditioner creates it
    try:
        r = simdist.run_world(W, sharded_rank_fn(spec, tmp), seed=seed, policy=policy, stress=stress)
        r.tmp_files = sorted(os.listdir(tmp)) if tmp and os.path.isdir(tmp) else None
        return r
    finally:
        if tmp:
            shutil.rmtree(tmp, ignore_errors=True)


# ------------------------------------------------------------------ unsharded reference
class _Stages(torch.nn.Module):
    """All pipeline stages of the unsharded model (stages are independent chains; K-FAC couples them through the clip scale)."""

    def __init__(self, chains):
        super().__init__()
        self.stages = torch.nn.ModuleList([torch.nn.Sequential(*c) for c in chains])


def unsharded_rank_fn(spec):
    def fn(rank, world):
        from kfac.preconditioner import KFACPreconditioner

        chains = [build_full(spec, st) for st in range(spec['pp'])]
        model = _Stages(chains)
        with warnings.catch_warnings():
            warnings.simplefilter('ignore')
            p = KFACPreconditioner(model, damping=damping_of(spec), kl_clip=spec['kl'], lr=spec.get('lr', 0.1), allreduce_bucket_cap_mb=0.0,
                                   factor_update_steps=spec['F'], inv_update_steps=spec['I'], update_factors_in_hook=spec['hook'],
                                   accumulation_steps=spec['acc'], compute_method='eigen', compute_eigenvalue_outer_product=False,
                                   factor_dtype=(getattr(torch, spec['fdt']) if spec.get('fdt') else None))
        gens = [torch.Generator().manual_seed(spec['data_seed'] * 100 + st * 10 + rank) for st in range(spec['pp'])]
        rec = dict(grads=[], factors=[])
        for ev in spec['history']:
            if ev[0] != 'train':
                continue
            model.zero_grad()
            for _ in range(spec['acc']):
                loss = 0.0
                for st, mods in enumerate(chains):
                    x = torch.randn(spec['batch'], stage_input_dim(spec, st), generator=gens[st], dtype=torch.float64)
                    if not mods:
                        continue
                    out = forward_chain(mods, ['full'] * len(mods), x)
                    loss = loss + loss_of(out, mods[-1].weight.shape[0], spec['batch'])
                loss.backward()
            simdist.allreduce_mean_grads(model.parameters(), size=world)
            p.step()
            rec['grads'].append([[(m.weight.grad.clone(), None if m.bias is None else m.bias.grad.clone()) for m in mods] for mods in chains])
            sd = p.state_dict()['layers']
            rec['factors'].append({n: (sd[n]['A'].clone(), sd[n]['G'].clone()) for n in sd})
            if spec.get('sgd_lr'):
                with torch.no_grad():
                    for q in model.parameters():
                        q -= spec['sgd_lr'] * q.grad
        return rec
    return fn


def run_unsharded(spec, seed=0):
    """results[dp_rank]['grads'][step][stage][layer] = (w, b); factors keyed 'stages.<stage>.<layer>'."""
    return simdist.run_world(spec['dp'], unsharded_rank_fn(spec), seed=seed, policy='round_robin')


def shard_of(kind, full_w, full_b, m, mp):
    """The shard of the unsharded gradient that model-parallel rank m must hold."""
    if kind == 'col':
        h = full_w.shape[0] // mp
        return full_w[m * h:(m + 1) * h], (None if full_b is None else full_b[m * h:(m + 1) * h])
    h = full_w.shape[1] // mp
    return full_w[:, m * h:(m + 1) * h], full_b


def classify_failure(run, spec):
    """Map a failed GPT-NeoX run to the mechanism key of a known defect, if it matches exactly."""
    txt = run.failure_summary(4000)
    if spec['pp'] > 1 and spec['dp'] > 1 and spec['mp'] > 1 and any(m.startswith('M3') for m in run.monitor) and not any(
            e and 'SimAbort' not in e.splitlines()[-1] for e in run.errors if e):
        return 'neox-stage-group-created-only-by-own-stage'
    if "bias_grad_partition" in txt and 'UnboundLocalError' in txt and not spec['bias'] and spec['mp'] > 1:
        return 'neox-column-parallel-without-bias-unboundlocal'
    return None
