"""C01 - the preconditioned gradient solves the damped Kronecker-factored system.

Oracle: D (combined gradient before the step), R (after), A/G (state_dict after
the step) are captured at the API boundary; V is solved in float64; one scalar
nu is fitted over all layers and every layer must satisfy
||R - nu V|| <= tol * ||nu V|| with tol derived from measured conditioning.
"""
from __future__ import annotations

from kverif.common import Deadline, case_rng, stable_hash, tier_value

ID = 'C01'
LEVEL = 'exploration'
RULE = ('generated models (linear incl. N-d inputs, conv geometries, bias on/off, residual blocks, unsupported layers in between), batch 1-8, '
        'four losses, damping log-uniform [1e-3,10], decay in (0,1], both methods (enum or string), pre-divided eigenvalues on/off, '
        'param dtype {float32,float64,bfloat16}, factor dtype {None,float32,float64,bfloat16}, inverse dtype {float32,float64,bfloat16}, '
        '1-6 steps with inv_update_steps | factor_update_steps; every 8th case runs on 2-4 simulated ranks under every gradient-worker count and checks every rank; a sub-workload loads indefinite factors through load_state_dict (eigen PSD clause). '
        'non-trivial: tolerance bound < 0.05, ||D|| > 0 and damping matters (lambda/(median eig product + lambda) >= 0.05) on some layer; '
        'distinct = hash(model description, configuration)')
ASSUMPTIONS = ['factors are read from state_dict() after the step; the clip factor is fitted (its formula is C07)',
               'tolerance = 4 eps(grad dtype) + max(64, 32 sqrt(dim)) * max(eps32, eps(inv dtype)) * kappa (calibrated: >= 8x head-room on the unchanged tree)']
REQUIRED = ['layer_checks', 'nontrivial_layer_checks', 'world_layer_checks']


def run_case(rng, res, idx, replaying=False):
    import torch
    from kverif import kharness as kh
    from kverif import refmodel as rm

    low = rng.random() < 0.3
    cfg = kh.make_config(rng, callables=False, intervals='divides',
                         dtypes=('float64', 'float64', 'float32', 'bfloat16') if low else ('float64', 'float32'),
                         factor_dtypes=(None, 'float32', 'float64', 'bfloat16') if low else (None, 'float64'),
                         inv_dtypes=('float32', 'float64', 'bfloat16') if low else ('float32', 'float64'),
                         kl=('const', 'big'))
    if rng.random() < 0.35:
        # a damping schedule: second-order data is refreshed every step so that "current factors, current damping" stays well defined
        cfg['I'] = ('const', 1)
        cfg['F'] = ('const', rng.choice([1, 1, 2]))
        cfg['damping'] = rng.choice([('lin', cfg['damping'][1], rng.choice([0.5, 1.0, -0.1])), ('cyc', cfg['damping'][1] * 2, cfg['damping'][1] * 0.3, 3)])
    psd_load = rng.random() < 0.12 and cfg['method'] == 'eigen'
    try:
        s = kh.Session(rng, cfg, with_ref=False)
    except kh.ConfigRejected as e:
        res.skip('constructor rejected configuration: ' + str(e)[:60])
        return
    case = dict(idx=idx, cfg=cfg, model=s.info['desc'], psd_load=psd_load)
    nsteps = rng.randint(1, 6)
    nontrivial = False
    for step in range(nsteps):
        s.train_iteration()
        if psd_load and step == 1:
            # replace factors by slightly indefinite symmetric ones through the public API
            sd = s.p.state_dict()
            for n in sd['layers']:
                for k in ('A', 'G'):
                    M = sd['layers'][n][k]
                    w, Q = torch.linalg.eigh(M.double())
                    w = w.clone()
                    w[0] = -0.3 * w.abs().max()
                    sd['layers'][n][k] = (Q @ torch.diag(w) @ Q.t()).to(M.dtype)
            s.p.load_state_dict(sd, compute_inverses=True)
            # keep steps such that no factor update happens in this step: emulate by F large is not possible;
            # instead accept that the hook has already folded this iteration's batch: factors below are re-read after the step.
        D = s.grads()
        lam = s.p.damping
        kh.step(s.p, cfg)
        R = s.grads()
        fac = s.factors()
        V = {}
        kap = {}
        for n in s.layers:
            A, G = fac[n][0].double(), fac[n][1].double()
            if cfg['method'] == 'inverse':
                V[n] = rm.solve_inverse(D[n], A, G, lam)
                kap[n] = rm.kappa_inverse(A, G, lam)
            else:
                V[n] = rm.solve_eigen(D[n], A, G, lam)
                kap[n] = rm.kappa_eigen(A, G, lam)
        if psd_load and step >= 1 and cfg['F'][1] != 1:
            pass
        tols = {n: kh.tol_for(cfg, kap[n], max(V[n].shape), with_factor=(cfg['method'] == 'inverse')) for n in s.layers}  # inverse adds the damping in the factor dtype
        # the common scalar is fitted on the best-conditioned layer only (an ill-conditioned layer must not pollute the fit)
        best = min((n for n in s.layers if float((V[n] * V[n]).sum()) > 0), key=lambda n: tols[n], default=None)
        if best is None:
            res.skip('zero gradient')
            continue
        nu = float((R[best] * V[best]).sum()) / float((V[best] * V[best]).sum())
        worst_tol = tols[best]
        for n in s.layers:
            dim = max(V[n].shape)
            tol = tols[n] + (tols[best] if n != best else 0.0)
            res.count('layer_checks')
            err = kh.rel_err(R[n], nu * V[n])
            res.maxi('max_err_over_tol', err / tol)
            A, G = fac[n][0].double(), fac[n][1].double()
            wa, _ = rm.eig_psd(A)
            wg, _ = rm.eig_psd(G)
            med = float(torch.outer(wg, wa).median())
            matters = lam / (med + lam) >= 0.05
            if float(V[n].norm()) == 0:
                continue
            if tol < 0.05 and float(D[n].norm()) > 0:
                res.count('nontrivial_layer_checks')
                if matters:
                    nontrivial = True
            else:
                res.count('trivial_layer_checks')
            if not (err <= tol) or R[n].isnan().any():
                return res.violation(
                    f'step {step}, layer {n}: ||R - nu V||/||nu V|| = {err:.3e} > tol {tol:.3e} (nu={nu:.4g}, kappa={kap[n]:.3g}, method={cfg["method"]}, prediv={cfg["prediv"]}, damping={lam})',
                    case, step=step, layer=n)
        if not (0 < nu <= 1 + max(worst_tol, 1e-9)):
            return res.violation(f'step {step}: fitted clip scale nu={nu} is not in (0, 1]', case, step=step)
    if nontrivial:
        res.nontrivial.add(stable_hash(s.info['desc'], cfg))
    res.sample(dict(idx=idx, model=s.info['desc'], cfg={k: cfg[k] for k in ('method', 'prediv', 'damping', 'decay', 'F', 'I', 'pdt', 'fdt', 'idt', 'acc', 'hook')}, steps=nsteps))


def run_world(rng, res, idx):
    """The same oracle on every rank of a simulated world (every gradient-worker count): the layer result must solve the
    system built from that rank's own view of D and of the factors."""
    from kverif import kharness as kh, scenario, simdist
    from kverif.props.c07 import solve_all

    W = rng.choice([2, 3, 4])
    cfg = kh.make_config(rng, callables=False, intervals='divides', dtypes=('float64', 'float32'), inv_dtypes=('float32', 'float64'), kl=('const', 'big'))
    cfg['k'] = rng.choice(scenario.divisors(W))
    cfg['colocate'] = True if (cfg['method'] == 'eigen' and cfg['prediv']) else rng.random() < 0.5
    nsteps = rng.randint(2, 5)
    spec = dict(model_seed=rng.randrange(10 ** 6), data_seed=rng.randrange(10 ** 6), batch=rng.randint(1, 4), cfg=cfg, history=[('train',)] * nsteps,
                record=['D', 'layer_grads', 'factors'])
    spec['readback_steps'] = sorted({nsteps - 1} | {t for t in range(nsteps) if rng.random() < 0.5})
    case = dict(idx=idx, kind='world', W=W, cfg=cfg, steps=nsteps)
    run = scenario.run(spec, W, seed=rng.randrange(10 ** 6), policy=simdist.POLICIES[idx % len(simdist.POLICIES)])
    if run.inconclusive:
        res.inconclusive.append('simulator watchdog fired')
        return
    r_, tb = run.first_exception()
    if tb and 'ConfigRejected' in tb.strip().splitlines()[-1]:
        res.skip('constructor rejected')
        return
    if run.failed():
        return res.violation('scenario failed: ' + run.failure_summary(), case)
    lam = cfg['damping'][1]
    for st in range(nsteps):
        for r in range(W):
            rec = run.results[r]
            D, R, fac = rec['D'][st], rec['layer_grads'][st], rec['factors'][st]
            if fac is None:
                continue
            V, kap = solve_all(cfg, D, fac, lam)
            tols = {n: kh.tol_for(cfg, kap[n], max(V[n].shape), with_factor=(cfg['method'] == 'inverse')) for n in D}
            best = min((n for n in D if float((V[n] * V[n]).sum()) > 0), key=lambda n: tols[n], default=None)
            if best is None:
                continue
            nu = float((R[best] * V[best]).sum()) / float((V[best] * V[best]).sum())
            for n in D:
                if float(V[n].norm()) == 0:
                    continue
                tol = tols[n] + (tols[best] if n != best else 0.0)
                err = kh.rel_err(R[n], nu * V[n])
                res.count('world_layer_checks')
                res.maxi('max_world_err_over_tol', err / tol)
                if not err <= tol:
                    return res.violation(f'rank {r} of {W} (k={cfg["k"]}), step {st}, layer {n}: ||R - nu V||/||nu V|| = {err:.3e} > tol {tol:.3e} '
                                         f'(method={cfg["method"]}, prediv={cfg["prediv"]}, inverse worker of the layer: {rec["assignment"][n]["inv"]})', case, step=st, layer=n)
    res.nontrivial.add(stable_hash('world', W, spec['model_seed'], cfg))
    res.sample(dict(idx=idx, kind='world', W=W, k=cfg['k'], steps=nsteps, cfg={k: cfg[k] for k in ('method', 'prediv', 'F', 'I', 'damping')}))


def plan(tier, seed):
    n = tier_value(tier, 1600, 120000)
    shards = tier_value(tier, 8, 14)
    per = n // shards
    return [dict(first=i * per, count=per, budget_s=tier_value(tier, 45, 420)) for i in range(shards)]


def run_shard(spec, res):
    dl = Deadline(spec['budget_s'])
    for i in range(spec['first'], spec['first'] + spec['count']):
        if dl.over():
            break
        res.evaluations += 1
        from kverif.kharness import call_case
        if i % 8 == 7:
            call_case(res, run_world, case_rng(spec['seed'], ID, i, 'w'), res, i, case=dict(idx=i, kind='world'))
        else:
            call_case(res, run_case, case_rng(spec['seed'], ID, i), res, i, case=dict(idx=i))


def replay(case, res):
    import os
    if case.get('kind') == 'world':
        return run_world(case_rng(int(os.environ.get('VERIF_SEED', '0')), ID, case['idx'], 'w'), res, case['idx'])
    run_case(case_rng(int(os.environ.get('VERIF_SEED', '0')), ID, case['idx']), res, case['idx'], True)
