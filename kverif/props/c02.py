"""C02 - distributed work placement is semantically transparent.

Oracle (all on real executions): (a) gradients equal on all ranks after every
step; (b) metamorphic equality across placements (k, colocate, COMPUTE/MEMORY,
bucket cap, symmetric, hook/no-hook, enum/string spellings) for fixed model,
data and hyper-parameters; (c) equality with the real single-process
KFACPreconditioner fed the union of the per-rank batches.
"""
from __future__ import annotations

import copy
import warnings

from kverif.common import Deadline, case_rng, stable_hash, tier_value

ID = 'C02'
LEVEL = 'exploration'
RULE = ('worlds {2,3,4} (thorough +6,8) x generated models x placements sampled from {every divisor k as float or enum, colocate on/off, COMPUTE/MEMORY, '
        'bucket cap in {0,1e-6,5e-4,25}, symmetric on/off, hook/no-hook, method as enum or string} x 3-6 steps with F in {1,2}, I in {1,2,3}, accumulation 1-2, '
        'all scheduler policies; non-trivial: world>1, >=2 placements compared and >=1 sub-group collective matched; distinct = (model, world, placement set); '
        'distinct rank interleavings counted by hash of the scheduler decision sequence')
ASSUMPTIONS = ['the simulator is cross-validated against real gloo processes on a few scenarios per run (traces_validated_against_impl); gloo being unavailable is a skip, a disagreement makes the check inconclusive',
               'DDP gradient averaging is emulated by an explicit harness allreduce-mean',
               'equal per-rank batch sizes (needed for the union equivalence)', 'ranks share one process and BLAS (cross-rank bitwise equality is easier than on a cluster)',
               'models for the union comparison contain no batch-statistics layers']
REQUIRED = ['cross_rank_checks', 'placement_pairs_compared', 'union_checks']


def placements(rng, W, base, n):
    from kverif.scenario import divisors
    out = []
    ks = divisors(W)
    for i in range(n):
        v = dict(k=ks[i % len(ks)] if i < len(ks) else rng.choice(ks),
                 colocate=rng.random() < 0.5, strategy=rng.choice(['COMPUTE', 'MEMORY']), cap=rng.choice([0.0, 1e-6, 0.0005, 25.0]),
                 sym=rng.random() < 0.5, hook=rng.random() < 0.5, method_as_str=rng.random() < 0.4, frac_as_enum=rng.random() < 0.4)
        out.append(v)
    return out


def union_run(spec, W):
    """The real single-process preconditioner on the union of the per-rank batches."""
    import torch
    from kfac.preconditioner import KFACPreconditioner
    from kverif import gen, kharness as kh, scenario

    cfg = spec['cfg']
    model, in_shape, info = scenario.build_model(spec)
    kw = kh.precond_kwargs(cfg)
    with warnings.catch_warnings():
        warnings.simplefilter('ignore')
        p = KFACPreconditioner(model, **kw)
    dgens = [torch.Generator().manual_seed(spec['data_seed'] * 1000 + r) for r in range(W)]
    lgen = torch.Generator().manual_seed(spec['data_seed'])
    B = spec['batch']
    outs = []
    for ev in spec['history']:
        assert ev[0] == 'train'
        model.zero_grad()
        for _ in range(cfg['acc']):
            xs = [gen.make_batch(g, B, in_shape, kh.DT[cfg['pdt']]) for g in dgens]
            out = model(torch.cat(xs, 0))
            loss = sum((gen.loss_fn(cfg['loss'], o, lgen) if cfg['loss'] != 'proj' else o.float().pow(2).mean()) for o in out.split(B, 0))
            loss.backward()
        with torch.no_grad():
            for q in model.parameters():
                q.grad /= W
        p.step()
        outs.append(scenario.flat_grads(model))
    return outs


def run_case(rng, res, idx, tier):
    import torch
    from kverif import kharness as kh, refmodel as rm, scenario, simdist

    W = rng.choice([2, 3, 4] if tier == 'quick' else [2, 3, 4, 4, 6, 8])
    cfg = kh.make_config(rng, callables=False, dtypes=('float64', 'float64', 'float32'), factor_dtypes=(None, None, None, 'float32', 'bfloat16'), inv_dtypes=('float32', 'float64'),
                         kl=('const', 'big'), max_acc=2)
    cfg['F'] = ('const', rng.choice([1, 2]))
    cfg['I'] = ('const', rng.choice([1, 2, 3]))
    cfg['loss'] = rng.choice(['mse', 'lse', 'sum'])
    if cfg['method'] == 'eigen' and rng.random() < 0.3:
        cfg['prediv'] = True  # combined with colocate=False below this is only legal if the constructor says so
    nsteps = rng.randint(3, 6)
    spec = dict(model_seed=rng.randrange(10 ** 6), data_seed=rng.randrange(10 ** 6), batch=rng.randint(1, 4), cfg=cfg,
                history=[('train',)] * nsteps, record=['factors'], unsupported=False)
    pls = placements(rng, W, cfg, tier_value(tier, 4, 6))
    case = dict(idx=idx, W=W, cfg=cfg, steps=nsteps, placements=pls, model_seed=spec['model_seed'])
    base = None
    base_pl = None
    compared = 0
    subgroup = False
    for pi, pl in enumerate(pls):
        sp = copy.deepcopy(spec)
        sp['cfg'].update(pl)
        # only the first placement reads the factors back every step (needed for the tolerance); reading them waits on the
        # factor futures, so the other placements run without it and communication may stay in flight across iterations
        sp['record'] = ['factors'] if base is None else []
        policy = rng.choice(simdist.POLICIES)
        run = scenario.run(sp, W, seed=rng.randrange(10 ** 6), policy=policy, stress=(rng.random() < 0.15), deliver_prob=rng.choice([0.05, 0.3, 0.6, 1.0]))
        res.count('worlds_run')
        if run.inconclusive:
            res.inconclusive.append('simulator watchdog fired')
            return
        if run.failed():
            r_, tb = run.first_exception()
            if tb and 'ConfigRejected' in tb.strip().splitlines()[-1]:
                res.skip('constructor rejected placement: ' + tb.strip().splitlines()[-1][:70])
                continue
            return res.violation(f'placement {pl} on {W} ranks failed: ' + run.failure_summary(), case, placement=pl)
        res.add('schedules', run.schedule_hash())
        res.count('sim_events', len(run.trace))
        if any(e['group'] != 'world' for e in run.trace if e['kind'] in ('broadcast', 'allreduce') and not e['harness']):
            subgroup = True
        g = [run.results[r]['grads'] for r in range(W)]
        # (a) cross-rank equality
        for st in range(nsteps):
            for r in range(1, W):
                res.count('cross_rank_checks')
                a, b = g[0][st], g[r][st]
                if torch.equal(a, b):
                    res.count('cross_rank_bitwise_equal')
                dev = float((a - b).abs().max())
                lim = 8 * rm.eps_of(kh.DT[cfg['pdt']]) * float(a.abs().max())
                if not dev <= lim:
                    return res.violation(f'placement {pl}: gradients on rank {r} differ from rank 0 after step {st} by {dev:.3e} (> {lim:.3e})', case, placement=pl, step=st)
        if base is None:
            base, base_pl, base_fac = g[0], pl, run.results[0]['factors']
            continue
        # (b) metamorphic equality with the first placement
        compared += 1
        res.count('placement_pairs_compared')
        for st in range(nsteps):
            kap = 1.0
            for n, (A, G) in base_fac[st].items():
                lam = cfg['damping'][1]
                kap = max(kap, rm.kappa_inverse(A.double(), G.double(), lam) if cfg['method'] == 'inverse' else rm.kappa_eigen(A.double(), G.double(), lam))
            # both placements compute the factors in the same precision and reduction order: the factor dtype adds no slack here
            tol = 2 * kh.tol_for(cfg, kap, 8, with_factor=False)
            err = kh.rel_err(g[0][st], base[st])
            res.maxi('max_placement_err_over_tol', err / tol)
            if not err <= tol:
                mech = None
                return res.violation(f'gradients after step {st} depend on placement: {pl} vs {base_pl}: rel dev {err:.3e} > tol {tol:.3e} (kappa {kap:.3g})', case, a=pl, b=base_pl, step=st, mechanism=mech)
    if base is None:
        return
    # (c) union single-process run
    try:
        u = union_run(spec, W)
    except ValueError as e:
        res.skip('union constructor rejected: ' + str(e)[:50])
        u = None
    if u is not None:
        for st in range(nsteps):
            res.count('union_checks')
            kap = 1.0
            for n, (A, G) in base_fac[st].items():
                lam = cfg['damping'][1]
                kap = max(kap, rm.kappa_inverse(A.double(), G.double(), lam) if cfg['method'] == 'inverse' else rm.kappa_eigen(A.double(), G.double(), lam))
            tol = 2 * kh.tol_for(cfg, kap, 8) + 64 * rm.eps_of(kh.DT[cfg['pdt']]) * (st + 1) * kap
            err = kh.rel_err(base[st], u[st])
            res.maxi('max_union_err_over_tol', err / tol)
            if not err <= tol:
                return res.violation(f'{W}-rank gradients after step {st} (placement {base_pl}) differ from single-process K-FAC on the union batch: rel dev {err:.3e} > tol {tol:.3e}', case, step=st)
    if compared >= 1 and subgroup:
        res.nontrivial.add(stable_hash(spec['model_seed'], W, pls))
    res.sample(dict(idx=idx, W=W, steps=nsteps, placements=pls[:3], cfg={k: cfg[k] for k in ('method', 'prediv', 'F', 'I', 'damping', 'acc', 'pdt')}))


def run_fidelity(rng, res, idx):
    """Simulator vs real gloo processes on the same scenario (DESIGN.md 2.5): a disagreement is a defect of the simulator."""
    import copy as _copy
    from kverif import gloo_xval, kharness as kh, scenario, simdist

    W = rng.choice([2, 2, 3, 4])
    cfg = kh.make_config(rng, callables=False, dtypes=('float64',), inv_dtypes=('float32',), kl=('const', 'big'), max_acc=2)
    cfg['k'] = rng.choice(scenario.divisors(W))
    cfg['colocate'] = True if (cfg['method'] == 'eigen' and cfg['prediv']) else rng.random() < 0.5
    spec = dict(model_seed=rng.randrange(10 ** 6), data_seed=rng.randrange(10 ** 6), batch=rng.randint(1, 3), cfg=cfg, history=[('train',)] * rng.randint(2, 4), record=[],
                unsupported=False)
    run = scenario.run(spec, W, seed=idx, policy=rng.choice(simdist.POLICIES))
    r_, tb = run.first_exception()
    if run.inconclusive or (tb and 'ConfigRejected' in tb.strip().splitlines()[-1]):
        res.skip('fidelity scenario not runnable')
        return
    if run.failed():
        return res.violation('fidelity scenario failed on the simulator: ' + run.failure_summary(), dict(idx=idx, kind='fidelity', W=W, cfg=cfg))
    gres, err = gloo_xval.run_gloo(_copy.deepcopy(spec), W)
    if gres is None:
        res.skip('gloo run unavailable: ' + str(err)[:60])
        return
    bad = gloo_xval.compare(spec, W, run, gres)
    if bad:
        res.inconclusive.append('SIMULATOR FIDELITY: simdist and real gloo disagree: ' + '; '.join(bad[:3]))
        return
    res.count('traces_validated_against_gloo')
    res.count('gloo_events_compared', sum(len(g['events']) for g in gres))


def plan(tier, seed):
    n = tier_value(tier, 96, 3200)
    shards = tier_value(tier, 12, 14)
    per = max(1, n // shards)
    specs = [dict(first=i * per, count=per, budget_s=tier_value(tier, 50, 540)) for i in range(shards)]
    specs.append(dict(kind='fidelity', first=0, count=tier_value(tier, 2, 24), budget_s=tier_value(tier, 50, 400)))
    return specs


def coverage_extra(counters, maxima, sets):
    return {'traces_validated_against_impl': int(counters.get('traces_validated_against_gloo', 0))}


def run_shard(spec, res):
    dl = Deadline(spec['budget_s'])
    if spec.get('kind') == 'fidelity':
        for i in range(spec['count']):
            if dl.over():
                break
            run_fidelity(case_rng(spec['seed'], ID, i, 'gloo'), res, i)
        return
    for i in range(spec['first'], spec['first'] + spec['count']):
        if dl.over():
            break
        res.evaluations += 1
        run_case(case_rng(spec['seed'], ID, i), res, i, spec['tier'])


def replay(case, res):
    import os
    for tier in ('quick', 'thorough'):
        run_case(case_rng(int(os.environ.get('VERIF_SEED', '0')), ID, case['idx']), res, case['idx'], tier)
