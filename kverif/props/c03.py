"""C03 - all ranks issue matching collectives and no rank ever stalls.

Oracle: the online monitors of simdist (M1 membership, M2 matched kind/shape/
dtype/root/reduce-op, M3 identical new_group sequences, M4 everything issued is
matched and completed) plus logical stall detection and "no exception escapes a
rank in a valid history", over generated KAISA and GPT-NeoX histories under
all scheduler policies and callback-timing stress.
"""
from __future__ import annotations

from kverif.common import Deadline, case_rng, stable_hash, tier_value

ID = 'C03'
LEVEL = 'exploration'
RULE = ('KAISA: worlds {1,2,3,4,6,8} (thorough +12,16), every divisor k, constant or callable F/I, accumulation 1-3, hook/no-hook, four bucket caps, symmetric/dense, '
        'both methods; histories of 3-10 events over {train, eval, state_dict on a rank subset, memory_usage on a subset, load_state_dict on all ranks, reset_batch}; '
        'GPT-NeoX: construction, hooks, steps, state_dict/load_state_dict for (pp,dp,mp) with product <= 8 (thorough 16); every scheduler policy, line-level '
        'callback-timing stress on a sample; non-trivial: world>1 and a sub-group collective or checkpoint event; distinct = hash(config, history shape, topology)')
ASSUMPTIONS = ['asynchronous c10d semantics only (single-stream NCCL ordering hazards are reported as information, not decided)',
               'the DeepSpeed topology and Megatron parallel layers are stand-ins (see DESIGN.md section 2.4)',
               'a watchdog (180 s per world) turns a harness hang into inconclusive',
               'a few worlds per shard run as real gloo processes, one interpreter per rank with different PYTHONHASHSEED values; their streamed logs are matched offline '
               '(a world that does not finish with consistent logs is a counted skip)']
REQUIRED = ['worlds_run', 'matched_collectives', 'neox_worlds_run']


def gen_kaisa(rng, tier):
    from kverif import kharness as kh
    from kverif.scenario import divisors

    W = rng.choice([1, 2, 3, 4, 4, 6, 8] if tier == 'quick' else [1, 2, 3, 4, 6, 8, 8, 12, 16])
    k = rng.choice(divisors(W))
    cfg = kh.make_config(rng, callables=True, dtypes=('float64', 'float32'), inv_dtypes=('float32',), kl=('const', 'big', 'callable'))
    cfg['k'] = k
    cfg['colocate'] = True if (cfg['method'] == 'eigen' and cfg['prediv']) else rng.random() < 0.5
    cfg['frac_as_enum'] = rng.random() < 0.3
    hist = [('train',)]
    for _ in range(rng.randint(2, 9)):
        e = rng.choice(['train', 'train', 'train', 'eval', 'sd', 'mem', 'load', 'reset'])
        if e in ('sd', 'mem'):
            hist.append((e, sorted(r for r in range(W) if rng.random() < 0.6)))
        elif e == 'load':
            hist.append((e, rng.random() < 0.8))
        elif e == 'reset':
            hist.append(('train',))  # reset is only issued when factors exist; keep it after a train
            hist.append(('reset',))
        else:
            hist.append((e,))
    # compute_inverses=False is only valid when the next step recomputes; make the loads that skip it safe
    fixed = []
    for i, e in enumerate(hist):
        if e[0] == 'load' and not e[1] and (cfg['I'] != ('const', 1)):
            e = ('load', True)
        fixed.append(e)
    spec = dict(model_seed=rng.randrange(10 ** 6), data_seed=rng.randrange(10 ** 6), batch=rng.randint(1, 3), cfg=cfg, history=fixed, record=[])
    return W, spec


def run_kaisa(rng, res, idx, tier):
    from kverif import scenario, simdist

    W, spec = gen_kaisa(rng, tier)
    policy = simdist.POLICIES[idx % len(simdist.POLICIES)]
    stress = (idx % 5 == 0)
    case = dict(idx=idx, kind='kaisa', W=W, k=spec['cfg']['k'], cfg=spec['cfg'], history=spec['history'], policy=policy, stress=stress)
    run = scenario.run(spec, W, seed=rng.randrange(10 ** 6), policy=policy, stress=stress, deliver_prob=rng.choice([0.1, 0.6, 1.0]))
    if run.inconclusive:
        res.inconclusive.append('simulator watchdog fired (kaisa case %d)' % idx)
        return
    r_, tb = run.first_exception()
    if tb and 'ConfigRejected' in tb.strip().splitlines()[-1]:
        res.skip('constructor rejected configuration')
        return
    res.count('worlds_run')
    res.count('matched_collectives', run.world.matched_collectives)
    res.count('events', len(run.trace))
    res.count('line_events', run.world.line_events)
    res.count('line_deliveries', run.world.line_deliveries)
    res.add('schedules', run.schedule_hash())
    for site in run.world.line_sites:
        res.add('line_injection_sites', f'{site[0]}:{site[1]}')
    if run.failed():
        mech = None
        return res.violation(f'KAISA history on {W} ranks (k={spec["cfg"]["k"]}, policy {policy}) failed: ' + run.failure_summary(), case, mechanism=mech)
    hist_kinds = [e[0] for e in spec['history']]
    sub = any(e['group'] != 'world' for e in run.trace if e['kind'] != 'new_group' and not e.get('harness'))
    if W > 1 and (sub or 'load' in hist_kinds or 'sd' in hist_kinds):
        res.nontrivial.add(stable_hash('kaisa', W, spec['cfg']['k'], {k: v for k, v in spec['cfg'].items() if k not in ('damping',)}, hist_kinds))
    res.sample(dict(idx=idx, kind='kaisa', W=W, k=spec['cfg']['k'], history=hist_kinds, policy=policy, stress=stress, events=len(run.trace)))


def run_neox(rng, res, idx, tier):
    from kverif import neox, simdist

    spec = neox.gen_spec(rng, max_world=tier_value(tier, 8, 16), checkpoint=True)
    policy = simdist.POLICIES[idx % len(simdist.POLICIES)]
    W = spec['pp'] * spec['dp'] * spec['mp']
    case = dict(idx=idx, kind='neox', spec=spec, policy=policy)
    run = neox.run(spec, seed=rng.randrange(10 ** 6), policy=policy, stress=(idx % 5 == 0))
    if run.inconclusive:
        res.inconclusive.append('simulator watchdog fired (neox case %d)' % idx)
        return
    res.count('neox_worlds_run')
    res.count('matched_collectives', run.world.matched_collectives)
    res.count('events', len(run.trace))
    res.add('schedules', run.schedule_hash())
    res.add('neox_topologies', f'{spec["pp"]}x{spec["dp"]}x{spec["mp"]}')
    if run.failed():
        mech = neox.classify_failure(run, spec)
        return res.violation(f'GPT-NeoX history on topology pp={spec["pp"]} dp={spec["dp"]} mp={spec["mp"]} failed: ' + run.failure_summary(), case, mechanism=mech)
    if W > 1:
        res.nontrivial.add(stable_hash('neox', spec['pp'], spec['dp'], spec['mp'], spec['layers'], [e[0] for e in spec['history']]))
    res.sample(dict(idx=idx, kind='neox', topology=(spec['pp'], spec['dp'], spec['mp']), layers=spec['layers'], history=[e[0] for e in spec['history']]))


def run_separate_interpreters(seed, res, idx):
    """Ranks as separate interpreters with different hash seeds (what torchrun/mpirun give), on real gloo. Every rank
    streams what it issues to a log; the logs are matched offline, so a mismatch is found also when the world hangs.
    The model is chosen to contain layers of equal cost (ties are where an interpreter-dependent order would show)."""
    import copy as _copy
    from kverif import gen, gloo_xval, scenario

    rng = case_rng(seed, ID, idx, 'interp')
    W, spec = gen_kaisa(rng, 'quick')
    W = rng.choice([2, 3, 4])
    spec['cfg']['k'] = rng.choice(scenario.divisors(W))
    spec['history'] = [e if e[0] not in ('sd', 'mem') else (e[0], [r for r in e[1] if r < W]) for e in spec['history']][:6]
    spec['allow_conv'] = False
    tied = False
    for j in range(60):
        spec['model_seed'] = spec['model_seed'] + 1
        model, _, info = scenario.build_model(spec)
        dims = [(m.in_features + int(m.bias is not None), m.out_features) for m in gen.eligible_layers(model).values() if hasattr(m, 'in_features')]
        if len(dims) != len(set(dims)):
            tied = True
            break
    hashseeds = [rng.randrange(1, 2 ** 31) for _ in range(W)]
    case = dict(interp_idx=idx, W=W, k=spec['cfg']['k'], cfg=spec['cfg'], history=spec['history'], hashseeds=hashseeds, model=info['desc'], tied_costs=tied)
    finished, err, traces = gloo_xval.run_gloo_traced(_copy.deepcopy(spec), W, hashseeds)
    if err and 'ConfigRejected' in err:
        return res.skip('constructor rejected configuration')
    bad, compared = gloo_xval.match_traces(traces, finished)
    res.count('separate_interpreter_worlds')
    res.count('separate_interpreter_ops_matched', compared)
    if tied:
        res.count('separate_interpreter_worlds_with_tied_costs')
    if bad:
        return res.violation(f'{W} ranks as separate interpreters (hash seeds {hashseeds}, k={spec["cfg"]["k"]}): ' + bad[0] + (f' [the world then {err}]' if err else ''), case)
    if err and 'rank failed' in err and '/kfac/' in err:
        return res.violation(f'{W} ranks as separate interpreters: a rank raised inside kfac: ' + err[-300:], case)
    if err:
        res.count('separate_interpreter_worlds_unfinished')
        res.skip('real gloo world did not finish (logs consistent): ' + err[:30])


def plan(tier, seed):
    n = tier_value(tier, 320, 10000)
    shards = tier_value(tier, 10, 14)
    per = n // shards
    return [dict(first=i * per, count=per, budget_s=tier_value(tier, 50, 560)) for i in range(shards)]


def run_shard(spec, res):
    dl = Deadline(spec['budget_s'])
    for i in range(spec['first'], spec['first'] + spec['count']):
        if dl.over():
            break
        res.evaluations += 1
        if i % 4 == 3:
            run_neox(case_rng(spec['seed'], ID, i, 'neox'), res, i, spec['tier'])
        else:
            run_kaisa(case_rng(spec['seed'], ID, i), res, i, spec['tier'])
    for j in range(1 if spec['tier'] == 'quick' else 10):
        if j and dl.over():
            break
        run_separate_interpreters(spec['seed'], res, spec['first'] + j)


def replay(case, res):
    import os
    seed = int(os.environ.get('VERIF_SEED', '0'))
    if 'interp_idx' in case:
        return run_separate_interpreters(seed, res, case['interp_idx'])
    for tier in ('quick', 'thorough'):
        if case.get('kind') == 'neox':
            run_neox(case_rng(seed, ID, case['idx'], 'neox'), res, case['idx'], tier)
        else:
            run_kaisa(case_rng(seed, ID, case['idx']), res, case['idx'], tier)
