"""C04 - Kronecker factors are decayed running averages of batch second moments.

Oracle: float64 recurrence A_t = d A_{t-1} + (1-d) mean_ranks(mean_microbatches(M)) recomputed from module
inputs / output-gradients captured by harness hooks (registered before the preconditioner), compared with the
factors in state_dict() after every step on every rank; bitwise-unchanged on non-update steps and across
eval-mode passes; symmetry, PSD and dtype checks.
"""
from __future__ import annotations

import copy

from kverif.common import Deadline, case_rng, stable_hash, tier_value

ID = 'C04'
LEVEL = 'exploration'
RULE = ('linear (N-d inputs) and conv geometries, batch 1-8, decay constant or callable, accumulation 1-3, hook/no-hook, F in {1,2,3} or callable, loss scales {1,128,65536}, '
        'factor dtypes {None,float32,float64,bfloat16}, 1-12 updates, eval passes interleaved; world part: 2-4 simulated ranks with per-rank data (cross-rank mean), bucketed/symmetric '
        'variants and a mixed-dtype model; non-trivial: >=2 factor updates, decay not in {0.5,1}; distinct = hash(model, config, history)')
ASSUMPTIONS = ['"spatially normalised" means every patch row divided by the number of output positions (the convention fixed in DESIGN.md 2.2)',
               'tolerance 64 eps(factor dtype) T for float32/64 factors, 4 eps T for bfloat16 (calibrated on the unchanged tree; still far below the O(1) effect of a wrong rule)']
REQUIRED = ['factor_checks', 'unchanged_checks', 'eval_checks', 'world_factor_checks', 'dtype_checks']


def ftol(dt, T):
    import torch
    from kverif import refmodel as rm
    e = rm.eps_of(dt)
    return (4 if dt in (torch.bfloat16, torch.float16) else 64) * e * max(1, T)


def check_factor(res, case, tag, X, Xref, want_dtype, T, exact_symmetry=True):
    import torch
    from kverif import kharness as kh
    if X.dtype != want_dtype:
        res.violation(f'{tag}: factor stored as {X.dtype}, requested/activation dtype is {want_dtype}', case)
        return False
    res.count('dtype_checks')
    tol = ftol(X.dtype, T)
    err = kh.rel_err(X.double(), Xref)
    res.maxi('max_factor_err_over_tol_' + str(X.dtype).split('.')[-1], err / tol)
    if not err <= tol:
        res.violation(f'{tag}: factor deviates from decay*previous + (1-decay)*mean second moment by {err:.3e} (tol {tol:.3e}, T={T})', case)
        return False
    Xd = X.double()
    asym = float((Xd - Xd.t()).abs().max()) / max(float(Xd.abs().max()), 1e-300)
    # "symmetric" is exact: the batch moment is symmetrised and every later operation (decayed average, dtype cast, packing)
    # treats (i,j) and (j,i) alike. Only a reduction over several ranks may round the two differently on a real backend, so
    # multi-rank factors are allowed 4 eps. (The site audit showed that a 4 eps slack everywhere hid a dropped symmetrisation.)
    if asym > (0.0 if exact_symmetry else 4 * float(torch.finfo(X.dtype).eps)):
        res.violation(f'{tag}: factor is not symmetric (relative asymmetry {asym:.2e})', case)
        return False
    lmin = float(torch.linalg.eigvalsh((Xd + Xd.t()) / 2).min())
    if lmin < -max(tol, 1e-12) * float(Xd.norm()):
        res.violation(f'{tag}: factor is not positive semi-definite (lambda_min={lmin:.3e})', case)
        return False
    return True


def run_single(rng, res, idx):
    import torch
    from kverif import kharness as kh

    cfg = kh.make_config(rng, callables=True, dtypes=('float64', 'float32', 'float32', 'bfloat16'), factor_dtypes=(None, None, 'float32', 'float64', 'bfloat16'),
                         inv_dtypes=('float32',), kl=('big',), scaler=True)
    cfg['F'] = rng.choice([('const', 1), ('const', 2), ('const', 3), ('mod', 1, 3)])
    cfg['I'] = ('const', 1) if cfg['F'][0] != 'const' else ('const', cfg['F'][1] * rng.choice([1, 2]))
    cfg['damping'] = ('const', max(cfg['damping'][1] if cfg['damping'][0] == 'const' else 0.1, 0.05))
    try:
        s = kh.Session(rng, cfg, with_ref=True)
    except kh.ConfigRejected:
        res.skip('constructor rejected')
        return
    case = dict(idx=idx, kind='single', cfg=cfg, model=s.info['desc'])
    nev = rng.randint(2, 14)
    prev = None
    hist = []
    for ei in range(nev):
        if rng.random() < 0.25 and s.ref.steps > 0:
            hist.append('eval')
            before = copy.deepcopy(s.p.state_dict())
            mem = dict(s.p.memory_usage())
            st = s.p.steps
            s.eval_pass()
            after = s.p.state_dict()
            res.count('eval_checks')
            mem2 = dict(s.p.memory_usage())
            same = st == s.p.steps and mem == mem2 and all(
                torch.equal(before['layers'][n][f], after['layers'][n][f]) for n in before['layers'] for f in ('A', 'G'))
            if not same:
                return res.violation(f'event {ei}: an eval-mode pass changed factors, pending batch buffers ({mem} -> {mem2}) or the step count', case)
            continue
        hist.append('train')
        F_now = s.ref.val('F')
        upd = s.ref.steps % F_now == 0
        if not cfg['hook'] and rng.random() < 0.25:
            # extra train-mode forward passes without a backward pass (only with factor updates in step(), where the
            # statement's "mean over the accumulated micro-batches" is well defined separately for inputs and output-gradients)
            for _ in range(rng.randint(1, 2)):
                s.forward_only()
            res.count('forward_only_passes')
        s.train_iteration()
        D = s.grads()
        kh.step(s.p, cfg)
        s.ref.step(D)
        fac = s.factors()
        want = kh.DT[cfg['fdt']] or s.pdt
        for n in s.layers:
            res.count('factor_checks')
            T = s.ref.factor_updates // max(1, len(s.layers)) if cfg['hook'] else s.ref.factor_updates
            for f, X, Xref in (('A', fac[n][0], s.ref.A[n]), ('G', fac[n][1], s.ref.G[n])):
                if not check_factor(res, case, f'event {ei} (step {s.ref.steps - 1}, update={upd}, scale={cfg["scale"]}), layer {n}, {f}', X, Xref, want, T):
                    return
            if prev is not None and not upd:
                res.count('unchanged_checks')
                if not (torch.equal(prev[n][0], fac[n][0]) and torch.equal(prev[n][1], fac[n][1])):
                    return res.violation(f'event {ei} (step {s.ref.steps - 1}): factors of {n} changed on a step that is not a factor-update step (F={F_now})', case)
        prev = {n: (fac[n][0].clone(), fac[n][1].clone()) for n in s.layers}
    d = cfg['decay']
    if s.ref.factor_updates >= 2 * (len(s.layers) if cfg['hook'] else 1) and not (d[0] == 'const' and d[1] in (0.5, 1.0)):
        res.nontrivial.add(stable_hash(s.info['desc'], cfg, hist))
    res.sample(dict(idx=idx, kind='single', model=s.info['desc'], cfg={k: cfg[k] for k in ('F', 'decay', 'acc', 'hook', 'fdt', 'pdt', 'scale')}, history=hist))


def run_world(rng, res, idx):
    import torch
    from kverif import kharness as kh, refmodel as rm, scenario, simdist

    W = rng.choice([2, 3, 4])
    cfg = kh.make_config(rng, callables=True, dtypes=('float64', 'float32'), factor_dtypes=(None, None, 'float32', 'bfloat16'), inv_dtypes=('float32',), kl=('big',))
    cfg['F'] = rng.choice([('const', 1), ('const', 2), ('mod', 1, 3)])
    cfg['I'] = ('const', 1)
    cfg['k'] = rng.choice(scenario.divisors(W))
    cfg['colocate'] = True if (cfg['method'] == 'eigen' and cfg['prediv']) else rng.random() < 0.5
    cfg['damping'] = ('const', 0.1)
    mixed = rng.random() < 0.25
    if mixed:
        cfg['pdt'], cfg['fdt'], cfg['cap'] = 'float32', None, 25.0
    nsteps = rng.randint(2, 6)
    spec = dict(model_seed=rng.randrange(10 ** 6), data_seed=rng.randrange(10 ** 6), batch=rng.randint(1, 4), cfg=cfg, history=[('train',)] * nsteps,
                record=['moments', 'factors'], mixed_cast=mixed)
    # factors are read back (which waits on their futures) at the last step and a random subset of the others only
    spec['readback_steps'] = sorted({nsteps - 1} | {t for t in range(nsteps) if rng.random() < 0.5})
    case = dict(idx=idx, kind='world', W=W, cfg=cfg, steps=nsteps, mixed_dtype_model=mixed)
    run = scenario.run(spec, W, seed=rng.randrange(10 ** 6), policy=simdist.POLICIES[idx % len(simdist.POLICIES)])
    if run.inconclusive:
        res.inconclusive.append('simulator watchdog fired')
        return
    r_, tb = run.first_exception()
    if tb and 'ConfigRejected' in tb.strip().splitlines()[-1]:
        res.skip('constructor rejected')
        return
    if run.failed():
        return res.violation('scenario failed: ' + run.failure_summary(), case)
    recs = run.results
    names = recs[0]['layer_names']
    F = kh.mk(cfg['F'])
    dec = kh.mk(cfg['decay'])
    A = {n: None for n in names}
    G = {n: None for n in names}
    T = 0
    for st in range(nsteps):
        Fv = F(st) if callable(F) else F
        if st % Fv == 0:
            d = dec(st) if callable(dec) else dec
            T += 1
            for n in names:
                Ma = sum(sum(m[n][0] for s_, m in recs[r]['moments'] if s_ == st) / cfg['acc'] for r in range(W)) / W
                Mg = sum(sum(m[n][1] for s_, m in recs[r]['moments'] if s_ == st) / cfg['acc'] for r in range(W)) / W
                if A[n] is None:
                    A[n] = torch.eye(Ma.shape[0], dtype=torch.float64)
                    G[n] = torch.eye(Mg.shape[0], dtype=torch.float64)
                A[n] = d * A[n] + (1 - d) * Ma
                G[n] = d * G[n] + (1 - d) * Mg
        for r in range(W):
            if recs[r]['factors'][st] is None:
                continue
            for n in names:
                res.count('world_factor_checks')
                Xa, Xg = recs[r]['factors'][st][n]
                want_a = want_g = kh.DT[cfg['fdt']] or kh.DT[cfg['pdt']]
                if mixed:
                    want_a = want_g = (torch.float32 if n == names[0] else torch.float64)
                if not check_factor(res, case, f'step {st}, rank {r}, layer {n}, A', Xa, A[n], want_a, T, exact_symmetry=False):
                    return
                if not check_factor(res, case, f'step {st}, rank {r}, layer {n}, G', Xg, G[n], want_g, T, exact_symmetry=False):
                    return
    dd = cfg['decay']
    if T >= 2 and not (dd[0] == 'const' and dd[1] in (0.5, 1.0)):
        res.nontrivial.add(stable_hash('world', W, spec['model_seed'], cfg))
    res.count('worlds_run')
    if mixed:
        res.count('mixed_dtype_worlds')
    res.sample(dict(idx=idx, kind='world', W=W, cfg={k: cfg[k] for k in ('F', 'decay', 'acc', 'hook', 'fdt', 'pdt', 'k', 'cap', 'sym')}, steps=nsteps, mixed=mixed))


def run_wide_range(rng, res, idx):
    """Half-precision factors at the edges of their range: many rows (batch x sequence) and un-normalised inputs whose SUM of
    squares leaves float16 although the MEAN second moment is moderate. One Linear layer, one factor update, float64 reference."""
    import warnings
    import torch
    from kfac.preconditioner import KFACPreconditioner

    fdt = rng.choice([torch.float16, torch.float16, torch.bfloat16, torch.float32])
    fi, fo = rng.randint(1, 6), rng.randint(1, 5)
    lead = rng.choice([(8,), (200,), (700,), (40, 30), (3, 70, 5)])
    scale = rng.choice([1.0, 30.0, 100.0])
    bias = rng.random() < 0.6
    dec = rng.choice([0.5, 0.9, 0.0])
    # mixed precision the usual way: the forward pass runs inside torch.autocast (float32 model, float32 factors requested)
    autocast = fdt == torch.float32 and rng.random() < 0.5
    case = dict(idx=idx, kind='wide', factor_dtype=str(fdt), fin=fi, fout=fo, lead=list(lead), input_scale=scale, bias=bias, decay=dec, autocast=autocast)
    g = torch.Generator().manual_seed(rng.randrange(2 ** 31))
    lin = torch.nn.Linear(fi, fo, bias=bias)
    with torch.no_grad():
        for q in lin.parameters():
            q.copy_(torch.randn(q.shape, generator=g) * 0.1)
    model = torch.nn.Sequential(lin)
    with warnings.catch_warnings():
        warnings.simplefilter('ignore')
        p = KFACPreconditioner(model, factor_update_steps=1, inv_update_steps=1, damping=0.1, factor_decay=(dec if dec > 0 else 1e-9), factor_dtype=fdt, kl_clip=None, lr=0.1)
    x = torch.randn(*lead, fi, generator=g) * scale
    w = torch.randn(*lead, fo, generator=g)
    if autocast:
        res.count('autocast_forward_passes')
        with torch.autocast('cpu', dtype=torch.bfloat16):
            out_ = model(x)
        (out_.float() * w).sum().backward()
    else:
        (model(x) * w).sum().backward()
    sd = p.state_dict()['layers']
    name = next(iter(sd))
    xr = x.reshape(-1, fi).double()
    if bias:
        xr = torch.cat([xr, torch.ones(xr.shape[0], 1, dtype=torch.float64)], 1)
    gr = w.reshape(-1, fo).double()
    d = dec if dec > 0 else 1e-9
    Aref = d * torch.eye(xr.shape[1], dtype=torch.float64) + (1 - d) * (xr.t() @ xr) / xr.shape[0]
    Gref = d * torch.eye(fo, dtype=torch.float64) + (1 - d) * (gr.t() @ gr) / gr.shape[0]
    res.count('wide_range_checks')
    if sd[name]['A'] is None:
        return res.violation('no factor after a complete forward/backward pass on a factor-update step (hook mode)', case)
    for tag, X, Xref in (('A', sd[name]['A'], Aref), ('G', sd[name]['G'], Gref)):
        if autocast and X.dtype != fdt:
            return res.violation(f'forward pass under torch.autocast(bfloat16): factor {tag} is stored as {X.dtype}, the requested factor dtype is {fdt} '
                                 f'(the hook computes the second moment inside the autocast region)', case, mechanism='autocast-region-lowers-the-factor-dtype')
        if not torch.isfinite(X).all():
            return res.violation(f'wide-range batch ({xr.shape[0]} rows, input scale {scale}): factor {tag} stored as {X.dtype} is not finite although the mean second moment '
                                 f'is at most {float(Xref.abs().max()):.4g}', case)
        if not check_factor(res, case, f'wide-range batch ({xr.shape[0]} rows, input scale {scale}), {tag}', X, Xref, fdt, 4):
            return
    if fdt in (torch.float16, torch.bfloat16) and xr.shape[0] >= 200:
        res.nontrivial.add(stable_hash('wide', str(fdt), lead, scale, bias))


def plan(tier, seed):
    n = tier_value(tier, 480, 48000)
    shards = tier_value(tier, 8, 14)
    per = n // shards
    return [dict(first=i * per, count=per, budget_s=tier_value(tier, 45, 420)) for i in range(shards)]


def run_shard(spec, res):
    dl = Deadline(spec['budget_s'])
    for i in range(spec['first'], spec['first'] + spec['count']):
        if dl.over():
            break
        res.evaluations += 1
        from kverif.kharness import call_case
        if i % 10 == 7:
            call_case(res, run_wide_range, case_rng(spec['seed'], ID, i, 'wide'), res, i, case=dict(idx=i, kind='wide'))
        if i % 5 == 4:
            call_case(res, run_world, case_rng(spec['seed'], ID, i, 'w'), res, i, case=dict(idx=i, kind='world'))
        else:
            call_case(res, run_single, case_rng(spec['seed'], ID, i), res, i, case=dict(idx=i, kind='single'))


def replay(case, res):
    import os
    seed = int(os.environ.get('VERIF_SEED', '0'))
    if case.get('kind') == 'wide':
        run_wide_range(case_rng(seed, ID, case['idx'], 'wide'), res, case['idx'])
    elif case.get('kind') == 'world':
        run_world(case_rng(seed, ID, case['idx'], 'w'), res, case['idx'])
    else:
        run_single(case_rng(seed, ID, case['idx']), res, case['idx'])
