"""C05 - update intervals and hyper-parameter schedules are honoured over any history.

Oracle: the float64 reference K-FAC state machine (kverif.refmodel.RefKFAC) is
driven by the same generated history in lock-step with the real
KFACPreconditioner; after every step(): steps equal, factors within the C04
bound (and bitwise unchanged on non-update steps), gradients within the C01
bound of the reference, which preconditions with its *snapshot*.
"""
from __future__ import annotations

import copy

from kverif.common import Deadline, case_rng, stable_hash, tier_value

ID = 'C05'
LEVEL = 'exploration'
RULE = ('histories of 5-40 (thorough 200) events over {train iteration (accumulation 1-3), eval-mode pass, step, scheduler.step([k]), reset_batch, '
        'checkpoint round trip into a fresh preconditioner}; (F,I) all pairs in 1..5 incl. non-multiples and callables; callable damping/decay/kl/lr; '
        'LambdaParamScheduler with distinct factor functions; hook/no-hook; both methods and pre-division; '
        'non-trivial: >=1 step preconditions with stale second-order data whose factors changed by >=1% since the refresh, or a callable evaluated at >=2 steps; '
        'distinct = hash(config, history shape)')
ASSUMPTIONS = ['exactly accumulation_steps train passes precede each step (documented discipline)',
               'reset_batch is issued between backward and step; checkpoint events happen at step boundaries',
               'tolerance as in C01 plus the factor-recurrence error 64 eps(factor dtype) T kappa']
REQUIRED = ['step_checks', 'factor_checks', 'unchanged_factor_checks']


def gen_history(rng, n, cfg):
    ev = []
    for _ in range(n):
        r = rng.random()
        if r < 0.62:
            ev.append(('train', rng.random() < 0.12))   # (train, reset_batch before step?)
        elif r < 0.74:
            ev.append(('eval',))
        elif r < 0.86:
            ev.append(('sched', rng.choice([None, None, rng.randint(0, 12)])))
        elif r < 0.95:
            ev.append(('ckpt', rng.random() < 0.8))
        else:
            ev.append(('eval',))
    if not any(e[0] == 'train' for e in ev):
        ev.insert(0, ('train', False))
    return ev


def run_case(rng, res, idx, maxlen):
    import traceback
    from kverif.kharness import NonFiniteData
    try:
        return _run_case(rng, res, idx, maxlen)
    except NonFiniteData:
        res.skip('torch produced non-finite data for finite inputs')
    except Exception:  # noqa: BLE001  an exception escaping the real code in a valid history
        tb = traceback.format_exc()
        from kverif.common import REPO
        if (REPO.rstrip('/') + '/kfac/') not in tb:
            raise  # not raised by the code under test: a harness problem (inconclusive)
        res.violation('a valid history raised: ' + ' | '.join(x.strip() for x in tb.strip().splitlines()[-4:]), dict(idx=idx))


def _run_case(rng, res, idx, maxlen):
    import torch
    from kfac.scheduler import LambdaParamScheduler
    from kverif import kharness as kh
    from kverif import refmodel as rm

    cfg = kh.make_config(rng, callables=True, dtypes=('float64', 'float64', 'float32'), factor_dtypes=(None,), inv_dtypes=('float32', 'float64'),
                         kl=('const', 'big', 'callable'))
    # keep damping large enough that staleness is visible but conditioning moderate
    try:
        s = kh.Session(rng, cfg, with_ref=True)
    except kh.ConfigRejected as e:
        res.skip('constructor rejected: ' + str(e)[:50])
        return
    # maxlen >= 150 marks a LONG history (two thirds of maxlen at least): values that only arise after tens of steps
    hist = gen_history(rng, rng.randint(maxlen * 2 // 3, maxlen) if maxlen >= 150 else rng.randint(5, maxlen), cfg)
    # a second, unrelated model + preconditioner living in the same process and stepped in between: nothing of it may leak
    # into the observed one (module-level caches, class-level state)
    other = None
    if rng.random() < 0.2:
        try:
            ocfg = kh.make_config(rng, callables=False, dtypes=(cfg['pdt'],), inv_dtypes=(cfg['idt'],), kl=('const',))
            ocfg['method'], ocfg['prediv'] = cfg['method'], cfg['prediv']
            ocfg['colocate'] = True
            other = kh.Session(rng, ocfg, with_ref=False)
            res.count('histories_with_second_preconditioner')
        except kh.ConfigRejected:
            other = None
    case = dict(idx=idx, cfg=cfg, model=s.info['desc'], history=[e[0] for e in hist])
    # scheduler only on non-callable parameters
    sched_par = [k for k, key in (('damping', 'damping'), ('factor_decay', 'decay'), ('kl_clip', 'kl'), ('lr', 'lr'),
                                  ('factor_update_steps', 'F'), ('inv_update_steps', 'I')) if cfg[key][0] == 'const' and rng.random() < 0.5]
    lam_defs = {}
    for i, k in enumerate(sched_par):
        if k in ('factor_update_steps', 'inv_update_steps'):
            tab = [rng.choice([1, 1, 2, 1.5, 0.5]) for _ in range(3)]
            lam_defs[k] = (lambda t: (lambda st: t[st % 3]))(tab)
        elif k == 'factor_decay':
            lam_defs[k] = (lambda a: (lambda st: 1.0 - a * (st % 2)))(rng.choice([0.0, 0.05, 0.2]))
        else:
            lam_defs[k] = (lambda a, j: (lambda st: 1.0 + a / (1 + (st % 4) + j)))(rng.choice([0.1, 0.5, -0.2]), i)

    def make_sched(p):
        return LambdaParamScheduler(p, **{k + '_lambda': f for k, f in lam_defs.items()})

    sched = make_sched(s.p)
    keymap = dict(damping='damping', factor_decay='decay', kl_clip='kl', lr='lr', factor_update_steps='F', inv_update_steps='I')
    stale_seen = False
    no_sched_until_step = False
    callable_steps = set()
    prev_factors = None
    T = 0
    saved = []   # in-memory checkpoints (state dict object, reference state)
    for ei, ev in enumerate(hist):
        if ev[0] == 'train':
            F_now = s.ref.val('F')
            if other is not None:
                other.train_iteration()
                other.p.step()
                if cfg['acc'] > 1:
                    # ... and a complete iteration of the other model INSIDE this model's accumulation window (two models
                    # trained alternately in one process)
                    def _other_iteration():
                        other.train_iteration()
                        other.p.step()
                        res.count('other_model_iterations_inside_accumulation_windows')
                    s.between = _other_iteration
            s.train_iteration()
            if ev[1] and all(s.ref.A[n] is not None for n in s.layers):
                s.p.reset_batch()
                s.ref.reset_batch()
            will_update = (s.ref.steps % F_now == 0)
            D = s.grads()
            s.p.step()
            R = s.grads()
            exp, nu, V, refreshed = s.ref.step(D)
            _ = (s.p.lr, s.p.kl_clip, s.p.damping, s.p.factor_decay, s.p.factor_update_steps, s.p.inv_update_steps)   # logging reads between steps
            no_sched_until_step = False
            T += 1
            res.count('step_checks')
            if s.p.steps != s.ref.steps:
                return res.violation(f'event {ei}: preconditioner.steps={s.p.steps}, reference={s.ref.steps}', case, event=ei)
            fac = s.factors()
            for n in s.layers:
                A, G = fac[n]
                res.count('factor_checks')
                ftol = 64 * rm.eps_of(A.dtype) * max(1, s.ref.factor_updates)
                ea, eg = kh.rel_err(A.double(), s.ref.A[n]), kh.rel_err(G.double(), s.ref.G[n])
                res.maxi('max_factor_err_over_tol', max(ea, eg) / ftol)
                if not (ea <= ftol and eg <= ftol):
                    return res.violation(f'event {ei} (step {s.ref.steps - 1}), layer {n}: factor deviates from the reference recurrence (A {ea:.2e}, G {eg:.2e}, tol {ftol:.2e}); '
                                         f'F={F_now}, update expected={will_update}', case, event=ei, layer=n)
                if prev_factors is not None and s.ref.last_factor_update_step != s.ref.steps - 1:
                    res.count('unchanged_factor_checks')
                    if not (torch.equal(prev_factors[n][0], A) and torch.equal(prev_factors[n][1], G)):
                        return res.violation(f'event {ei} (step {s.ref.steps - 1}): factors of {n} changed on a step that is not a factor-update step (F={F_now})', case, event=ei, layer=n)
            prev_factors = {n: (fac[n][0].clone(), fac[n][1].clone()) for n in s.layers}
            tols = {}
            for n in s.layers:
                kap = s.ref.kappa(n)
                tols[n] = kh.tol_for(cfg, kap, max(exp[n].shape)) + 64 * rm.eps_of(fac[n][0].dtype) * max(1, s.ref.factor_updates) * kap
            # the clip scale couples the layers: its relative error is bounded by the worst layer's error
            nu_tol = max(tols.values()) if nu < 1.0 or cfg['kl'][0] != 'none' else 0.0
            for n in s.layers:
                tol = tols[n] + nu_tol
                err = kh.rel_err(R[n], exp[n])
                res.maxi('max_grad_err_over_tol', err / tol)
                if tol >= 0.05:
                    res.count('trivial_grad_checks')
                else:
                    res.count('grad_checks')
                if not (err <= tol):
                    return res.violation(
                        f'event {ei} (step {s.ref.steps - 1}), layer {n}: gradient deviates from the reference state machine by {err:.3e} > tol {tol:.3e} '
                        f'(refreshed={refreshed}, last refresh at step {s.ref.last_refresh_step}, last factor update at step {s.ref.last_factor_update_step}, '
                        f'F={F_now}, I={s.ref.hp["I"] if not callable(s.ref.hp["I"]) else "fn"}, method={cfg["method"]}, prediv={cfg["prediv"]}, nu_ref={nu:.4g})',
                        case, event=ei, layer=n)
            # staleness: snapshot factors differ from live factors by >= 1 %
            if not refreshed:
                for n in s.layers:
                    if kh.rel_err(s.ref.snap[n][0], s.ref.A[n]) >= 0.01 or kh.rel_err(s.ref.snap[n][1], s.ref.G[n]) >= 0.01:
                        stale_seen = True
            if any(cfg[k][0] not in ('const', 'none') for k in ('F', 'I', 'damping', 'decay', 'kl', 'lr')):
                callable_steps.add(s.ref.steps)
        elif ev[0] == 'eval':
            before = copy.deepcopy(s.p.state_dict())
            st = s.p.steps
            s.eval_pass()
            after = s.p.state_dict()
            res.count('eval_checks')
            if st != s.p.steps or not _sd_equal(before, after):
                return res.violation(f'event {ei}: an eval-mode pass changed K-FAC state', case, event=ei)
        elif ev[0] == 'sched':
            if no_sched_until_step:
                continue
            k = ev[1]
            keff = s.p.steps if k is None else k
            if k is None:
                sched.step()
            else:
                sched.step(k)
            for name, f in lam_defs.items():
                key = keymap[name]
                v = s.ref.hp[key]
                s.ref.hp[key] = int(v * f(keff)) if name in ('factor_update_steps', 'inv_update_steps') else v * f(keff)
            # keep inside the documented domain; otherwise stop the history here
            F_, I_ = s.ref.hp['F'], s.ref.hp['I']
            if (not callable(F_) and F_ < 1) or (not callable(I_) and I_ < 1):
                break
            d = s.ref.hp['decay']
            if not callable(d) and not (0 < d <= 1):
                break
            dm = s.ref.hp['damping']
            if not callable(dm) and not (dm > 1e-4):
                break
            res.count('sched_checks')
            got = (s.p.factor_update_steps, s.p.inv_update_steps, s.p.damping, s.p.factor_decay, s.p.kl_clip, s.p.lr)
            want = tuple(s.ref.val(k) for k in ('F', 'I', 'damping', 'decay', 'kl', 'lr'))
            if got != want:
                return res.violation(f'event {ei}: after scheduler.step({k}) hyper-parameters {got} != reference {want}', case, event=ei)
        elif ev[0] == 'ckpt':
            if s.p.steps == 0:
                continue  # boundary 0 is C09's business
            compute = ev[1]
            # either a new checkpoint (kept in memory, as a copy or as the very object state_dict() returned), or a roll-back to an
            # in-memory checkpoint that has ALREADY been loaded once and trained on since (the same object is loaded again)
            rollback = bool(saved) and rng.random() < 0.35
            if rollback:
                sd, st = saved[rng.randrange(len(saved))]
                compute = True
                res.count('rollbacks_to_a_checkpoint_loaded_before')
            else:
                sd = s.p.state_dict()
                if rng.random() < 0.5:
                    sd = copy.deepcopy(sd)
                st = s.ref.save()
                saved.append((sd, st))
            from kfac.preconditioner import KFACPreconditioner
            import warnings
            # a fresh preconditioner on the same model (old hooks stay registered but belong to the dropped object;
            # they only mutate the dropped object's state)
            old = s.p
            _drop_hooks(s.model, old)
            with warnings.catch_warnings():
                warnings.simplefilter('ignore')
                s.p = KFACPreconditioner(s.model, **(kh.perturbed_kwargs(s.kw, rng) if rng.random() < 0.4 else s.kw))
            if not compute and (s.p.steps if False else sd['steps']) % s.ref.val('I') != 0:
                compute = True  # compute_inverses=False is only valid when the next step refreshes
            s.p.load_state_dict(sd, compute_inverses=compute)
            no_sched_until_step = not compute  # compute_inverses=False relies on the next step being a refresh step
            # scheduler-modified non-callable hyper-parameters travel in the state dict
            s.ref.load(st, compute_inverses=compute)
            sched = make_sched(s.p)
            prev_factors = None
            res.count('ckpt_events')
    if stale_seen or len(callable_steps) >= 2:
        res.nontrivial.add(stable_hash(cfg, [e[0] for e in hist]))
    if stale_seen:
        res.count('histories_with_stale_preconditioning')
    res.sample(dict(idx=idx, model=s.info['desc'], cfg={k: cfg[k] for k in ('method', 'prediv', 'F', 'I', 'damping', 'decay', 'kl', 'lr', 'acc', 'hook')},
                    history=[e[0] for e in hist][:25], scheduled=sched_par))


def _drop_hooks(model, old_p):
    """Remove the hooks the dropped preconditioner registered (a fresh process would not have them)."""
    for m in model.modules():
        for d in (m._forward_pre_hooks, m._backward_hooks):
            for k, h in list(d.items()):
                if getattr(h, '__self__', None) is old_p:
                    del d[k]


def _sd_equal(a, b):
    import torch
    if set(a) != set(b):
        return False
    for k in a:
        if k == 'layers':
            for n in a['layers']:
                for f in ('A', 'G'):
                    x, y = a['layers'][n][f], b['layers'][n][f]
                    if (x is None) != (y is None) or (x is not None and not torch.equal(x, y)):
                        return False
        elif a[k] != b[k]:
            return False
    return True


def plan(tier, seed):
    n = tier_value(tier, 800, 36000)
    shards = tier_value(tier, 8, 14)
    per = n // shards
    return [dict(first=i * per, count=per, budget_s=tier_value(tier, 50, 480)) for i in range(shards)]


def run_shard(spec, res):
    dl = Deadline(spec['budget_s'])
    maxlen = 40 if spec['tier'] == 'quick' else 200
    for i in range(spec['first'], spec['first'] + spec['count']):
        if dl.over():
            break
        res.evaluations += 1
        ml = maxlen if i % 10 == 0 else (150 if i % 40 == 3 else 40)
        run_case(case_rng(spec['seed'], ID, i), res, i, ml)


def replay(case, res):
    import os
    for ml in (40, 150, 200):
        run_case(case_rng(int(os.environ.get('VERIF_SEED', '0')), ID, case['idx']), res, case['idx'], ml)
