"""C06 - KAISA work assignment is well-formed and identical on every rank.

Oracle: one real KAISAAssignment per rank (recording group_func); all public
queries are compared across the rank views against relations that follow from
the statement only (no re-implementation of the grid).
"""
from __future__ import annotations

import warnings

from kverif.common import Deadline, case_rng, stable_hash, tier_value

ID = 'C06'
LEVEL = 'exploration'
EXHAUSTIVE = False
EXHAUSTIVE_SCOPE = 'every (world size, divisor k, colocate, cost family) up to the bound is visited, but cost dictionaries are drawn and for W>16 only 5 ranks are instantiated, so the space is not claimed exhaustive'
RULE = ('exhaustive over world sizes W (quick 1..64 plus 98,147,196,258,300,512,1024; thorough 1..320 plus 384..2048), every divisor k as k/W, colocate on/off, '
        'cost families (uniform, ties, zeros, geometric, random; 1..2W+1 layers), every local rank for W<=16 else {0,1,W//2,W-1,random}; '
        'construction through KFACPreconditioner (float and enum) with world size/rank patched; '
        'non-trivial: 1<k<W or cost ties; distinct = (W,k,colocate,family); repeated under PYTHONHASHSEED 0/1/4242 with equal digests required')
ASSUMPTIONS = ['group handles are opaque: group_func is a recorder returning the sorted member tuple',
               'partition_grad_workers / partition_grad_receivers are the public description of the two partitions']
REQUIRED = ['relation_checks', 'accept_checks', 'preconditioner_ctor_checks']


def divisors(n):
    return [d for d in range(1, n + 1) if n % d == 0]


def make_work(rng, fam, W):
    L = rng.choice([1, 2, max(1, W - 1), W, W + 1, 2 * W + 1])
    if W > 64:
        L = min(L, 70)
    if fam == 'uniform':
        return {f'l{i}': {'A': 1, 'G': 1} for i in range(L)}
    if fam == 'ties':
        return {f'l{i}': {'A': rng.choice([1, 2]), 'G': rng.choice([1, 2])} for i in range(L)}
    if fam == 'zeros':
        return {f'l{i}': {'A': rng.choice([0, 0, 1]), 'G': 0} for i in range(L)}
    if fam == 'near_ties':
        # n**3-sized integer costs differing by far less than single precision resolves (see C12)
        X = rng.choice([511, 1025, 4097, 8193]) ** 3 + rng.randrange(1000)
        n_big = min(max(2, W), 12)
        deltas = sorted(rng.sample(range(1, 40000), n_big), reverse=True)
        out = {f'big{i}': {'A': X + d, 'G': rng.choice([0, 7])} for i, d in enumerate(deltas)}
        for j in range(rng.randint(1, 4)):
            out[f'small{j}'] = {'A': rng.choice([129, 257, 1025]) ** 3, 'G': rng.choice([64, 129]) ** 3}
        return out
    if fam == 'geometric':
        return {f'l{i}': {'A': 2.0 ** (i % 30), 'G': 3.0 ** (i % 19)} for i in range(L)}
    return {f'm.{i}': {'A': rng.random() * 100, 'G': rng.random()} for i in range(L)}


def check_config(W, k, coloc, fam, rng, res):
    from kfac.assignment import KAISAAssignment

    work = make_work(rng, fam, W)
    case = dict(W=W, k=k, colocate=coloc, family=fam, layers=len(work), frac=k / W)
    ranks = list(range(W)) if W <= 16 else sorted({0, 1, W // 2, W - 1, rng.randrange(W)})
    calls = {}
    As = {}
    res.count('accept_checks')
    for r in ranks:
        calls[r] = []

        def gf(x, r=r):
            calls[r].append(tuple(sorted(x)))
            return tuple(sorted(x))
        try:
            As[r] = KAISAAssignment(work, local_rank=r, world_size=W, grad_worker_fraction=k / W, group_func=gf, colocate_factors=coloc)
        except ValueError as e:
            mech = 'kaisa-float-integrality-rejects-valid-fraction' if 'must produce an integer' in str(e) else None
            return res.violation(f'KAISAAssignment rejected grad_worker_fraction={k}/{W} (world_size={W}, rank {r}): {e}', dict(case, work=None), mechanism=mech)
    # a second, unrelated assignment object built AFTER these in the same process (another model of the job, with the same
    # layer names but other costs and another gradient-worker count): nothing of it may leak into the objects under test
    if rng.random() < 0.5:
        k2 = rng.choice(divisors(W))
        costs = [dict(v) for v in work.values()]
        rng.shuffle(costs)
        decoy_work = {l: c for l, c in zip(work, costs[::-1])}
        try:
            decoy = KAISAAssignment(decoy_work, local_rank=rng.choice(ranks), world_size=W, grad_worker_fraction=k2 / W, group_func=lambda x: tuple(sorted(x)),
                                    colocate_factors=not coloc)
            res.count('decoy_assignments_built')
            case['decoy'] = dict(k=k2, colocate=not coloc)
        except ValueError:
            decoy = None
    res.count('relation_checks')
    wparts = KAISAAssignment.partition_grad_workers(W, k)
    rparts = KAISAAssignment.partition_grad_receivers(W, k)
    for nm, parts, size in (('gradient-worker', wparts, k), ('gradient-receiver', rparts, W // k)):
        flat = sorted(x for p in parts for x in p)
        if flat != list(range(W)) or any(len(p) != size for p in parts):
            return res.violation(f'{nm} groups {sorted(map(sorted, parts))} do not partition range({W}) into parts of size {size}', case)
    r0 = ranks[0]
    if any(calls[r] != calls[r0] for r in ranks):
        bad = [r for r in ranks if calls[r] != calls[r0]][0]
        return res.violation(f'group creation sequence differs between rank {r0} ({calls[r0][:6]}...) and rank {bad} ({calls[bad][:6]}...)', case)
    # the statement fixes which groups EXIST (two partitions), not which handles an implementation chooses to create (e.g. it
    # may skip singletons): a created group must be one of them; that the groups a rank USES are the right ones is checked below
    foreign = set(calls[r0]) - {tuple(sorted(p)) for p in wparts | rparts}
    if foreign:
        return res.violation(f'groups created {sorted(foreign)} are neither gradient-worker nor gradient-receiver groups', case)
    digest = []
    for l in work:
        invs = {}
        for f in work[l]:
            vals = {As[r].inv_worker(l, f) for r in ranks}
            if len(vals) != 1:
                return res.violation(f'ranks disagree on inv_worker({l},{f}): {sorted(vals)}', case)
            invs[f] = vals.pop()
        # a handle is the recorder's member tuple; None is the default (world) group
        mem = lambda h: tuple(range(W)) if h is None else tuple(h)  # noqa: E731
        wg = {mem(As[r].grad_worker_group(l)) for r in ranks}
        if len(wg) != 1:
            return res.violation(f'ranks disagree on the gradient-worker group of {l}: {sorted(wg)}', case)
        wg = set(wg.pop())
        if frozenset(wg) not in wparts:
            return res.violation(f'gradient-worker group {sorted(wg)} of {l} is not one of the worker partitions', case)
        if not set(invs.values()) <= wg:
            return res.violation(f'inverse workers {invs} of {l} are not all inside its gradient-worker group {sorted(wg)}', case)
        if coloc and len(set(invs.values())) != 1:
            return res.violation(f'colocate_factors=True but {l} has inverse workers {invs}', case)
        if tuple(As[r0].get_factors(l)) != tuple(work[l]):
            return res.violation(f'get_factors({l}) = {As[r0].get_factors(l)}', case)
        for r in ranks:
            a = As[r]
            rg = set(mem(a.grad_receiver_group(l)))
            if frozenset(rg) not in rparts or r not in rg:
                return res.violation(f'rank {r}: receiver group {sorted(rg)} of {l} is not the receiver partition containing the rank', case)
            if a.is_grad_worker(l) != (r in wg):
                return res.violation(f'rank {r}: is_grad_worker({l})={a.is_grad_worker(l)} but worker group is {sorted(wg)}', case)
            src = a.src_grad_worker(l)
            if src not in rg or src not in wg or (src == r) != (r in wg) or len(rg & wg) != 1:
                return res.violation(f'rank {r}: src_grad_worker({l})={src}; receiver group {sorted(rg)}, worker group {sorted(wg)}', case)
        digest.append((l, sorted(invs.items()), sorted(wg)))
    for r in ranks:
        a = As[r]
        if a.broadcast_gradients() != (k < W) or a.broadcast_inverses() != (k > 1):
            return res.violation(f'rank {r}: broadcast flags ({a.broadcast_gradients()},{a.broadcast_inverses()}) for k={k}, W={W}', case)
        if tuple(a.get_layers()) != tuple(work):
            return res.violation(f'rank {r}: get_layers() = {a.get_layers()[:5]}', case)
    if 1 < k < W or fam in ('uniform', 'ties', 'zeros'):
        res.nontrivial.add(stable_hash(W, k, coloc, fam))
    res.add('digest_parts', stable_hash(W, k, coloc, fam, digest, calls[r0]))
    res.sample(dict(case, inv_workers_first_layers=digest[:3]))


def check_preconditioner(W, k, rng, res):
    """Construction through the public preconditioner for the float and the enum."""
    import torch
    import kfac.preconditioner as kp
    from kfac.enums import DistributedStrategy

    model = torch.nn.Sequential(torch.nn.Linear(3, 4), torch.nn.Linear(4, 2))
    old = (kp.get_world_size, kp.get_rank)
    try:
        for r in sorted({0, W - 1, rng.randrange(W)}):
            kp.get_world_size = lambda group=None: W
            kp.get_rank = lambda group=None, r=r: r
            variants = [('float', k / W)]
            if k == W:
                variants.append(('enum', DistributedStrategy.COMM_OPT))
            if k == 1:
                variants.append(('enum', DistributedStrategy.MEM_OPT))
                variants.append(('zero', 0))
            if 2 * k == W:
                variants.append(('enum', DistributedStrategy.HYBRID_OPT))
            for kind, frac in variants:
                res.count('preconditioner_ctor_checks')
                case = dict(W=W, k=k, rank=r, via=kind, frac=str(frac))
                try:
                    with warnings.catch_warnings():
                        warnings.simplefilter('ignore')
                        p = kp.KFACPreconditioner(model, grad_worker_fraction=frac, compute_eigenvalue_outer_product=False)
                except ValueError as e:
                    mech = 'kaisa-float-integrality-rejects-valid-fraction' if ('must produce an integer' in str(e)) else None
                    res.violation(f'KFACPreconditioner rejected grad_worker_fraction={frac} with world size {W}: {e}', case, mechanism=mech)
                    continue
                a = p._assignment
                if a.grad_workers != k or a.world_size != W or a.local_rank != r:
                    res.violation(f'KFACPreconditioner built an assignment with grad_workers={a.grad_workers}, expected {k}', case)
    finally:
        kp.get_world_size, kp.get_rank = old


FAMS = ['uniform', 'ties', 'zeros', 'geometric', 'random', 'near_ties']


def worlds(tier):
    base = list(range(1, tier_value(tier, 65, 321)))
    # a few large worlds in every tier (rank values beyond small-integer ranges, many groups), incl. the highest ranks
    extra = (98, 147, 196, 258, 300, 512, 1024) if tier == 'quick' else (384, 512, 600, 1024, 2048)
    return base + [w for w in extra if w not in base]


def plan(tier, seed):
    ws = worlds(tier)
    nshards = tier_value(tier, 4, 10)
    specs = []
    for hs in (0, 1, 4242):
        # interleave so that shards have similar cost
        for s in range(nshards):
            specs.append(dict(worlds=ws[s::nshards], part=s, hashseed=hs, budget_s=tier_value(tier, 180, 600)))
    return specs


def run_shard(spec, res):
    dl = Deadline(spec['budget_s'])
    for W in spec['worlds']:
        for k in divisors(W):
            for coloc in (True, False):
                for fam in FAMS:
                    if dl.over():
                        res.inconclusive.append(f'shard {spec["part"]} hit its time budget at W={W}')
                        break
                    rng = case_rng(spec['seed'], ID, W * 1000 + k, fam + str(coloc))
                    res.evaluations += 1
                    check_config(W, k, coloc, fam, rng, res)
            if not dl.over():
                check_preconditioner(W, k, case_rng(spec['seed'], ID, W * 1000 + k, 'pc'), res)
    dig = stable_hash(sorted(res.sets.pop('digest_parts', [])))
    res.add(f'digest:{spec["part"]}:n{res.evaluations}', dig)


def postcheck(counters, maxima, sets):
    """one digest per shard part and hash seed; shards of the same part that evaluated the same number of cases share a key,
    so more than one digest under a key means the result depends on the interpreter's hash seed."""
    out = []
    by = {}
    for k, v in sets.items():
        if k.startswith('digest:'):
            by.setdefault(k.split(':')[1], set()).update((k, d) for d in v)
    for part, items in by.items():
        digs = {d for _, d in items}
        keys = {k for k, _ in items}
        if len(keys) == 1 and len(digs) != 1:
            out.append(dict(what=f'assignment digests of shard {part} differ between PYTHONHASHSEED values (ranks in separate interpreters would disagree) (digests {sorted(digs)})', mechanism=None, case=dict(part=part)))
    return out


def coverage_extra(counters, maxima, sets):
    return {'hash_seeds_compared': 3}


def replay(case, res):
    import os
    seed = int(os.environ.get('VERIF_SEED', '0'))
    W, k = case['W'], case['k']
    if 'family' in case:
        check_config(W, k, case['colocate'], case['family'], case_rng(seed, ID, W * 1000 + k, case['family'] + str(case['colocate'])), res)
    else:
        check_preconditioner(W, k, case_rng(seed, ID, W * 1000 + k, 'pc'), res)
