"""C07 - KL clipping bounds the update and only rescales it.

Oracle: V from the float64 solve (factors from state_dict, as in C01); nu fitted over all layers must equal
min(1, sqrt(kl / |sum <V,D> lr^2|)) evaluated at the current step; the bound nu^2 lr^2 |sum<V,D>| <= kl;
kl_clip=None accepted and leaves R = V; zero gradients give a finite step; the same nu on every rank.
"""
from __future__ import annotations

import math
import random

from kverif.common import Deadline, case_rng, stable_hash, tier_value

ID = 'C07'
LEVEL = 'exploration'
RULE = ('generated models and gradients, lr constant or callable, kl_clip constant (clipping, mild, huge), callable or None, both methods, pre-division on/off, 1-5 steps; '
        'all-zero gradient steps; simulated worlds of 2-4 ranks under every gradient-worker count; GPT-NeoX sharded runs (see C11) for the shared-scalar clause; '
        'non-trivial: clip active (expected nu < 0.9) or kl_clip None while the formula would clip; distinct = hash(model, config)')
ASSUMPTIONS = ['factors are read from state_dict() after the step (inv_update_steps | factor_update_steps, constant damping)',
               'the value returned by the private _compute_grad_scale is recorded as information only (probe_checks, probe_disagreements_info); it decides nothing']
REQUIRED = ['nu_checks', 'none_checks', 'zero_grad_checks', 'steps_with_some_zero_gradient_layers', 'world_nu_checks']


def solve_all(cfg, D, fac, lam):
    from kverif import refmodel as rm
    V, kap = {}, {}
    for n in D:
        A, G = fac[n][0].double(), fac[n][1].double()
        if cfg['method'] == 'inverse':
            V[n] = rm.solve_inverse(D[n], A, G, lam)
            kap[n] = rm.kappa_inverse(A, G, lam)
        else:
            V[n] = rm.solve_eigen(D[n], A, G, lam)
            kap[n] = rm.kappa_eigen(A, G, lam)
    return V, kap


def check_step(res, case, cfg, D, R, fac, lam, kl, lr, tag, probe=None):
    from kverif import kharness as kh
    V, kap = solve_all(cfg, D, fac, lam)
    names = list(D)
    vd = sum(float((V[n] * D[n]).sum()) for n in names)
    den = sum(float((V[n] * V[n]).sum()) for n in names)
    tol = max(kh.tol_for(cfg, kap[n], max(V[n].shape), with_factor=(cfg['method'] == 'inverse')) for n in names)
    if den == 0:
        return None
    nu_fit = sum(float((R[n] * V[n]).sum()) for n in names) / den
    vg = vd * lr ** 2
    nu_exp = 1.0 if (kl is None or vg == 0) else min(1.0, math.sqrt(kl / abs(vg)))
    res.count('nu_checks')
    res.maxi('max_nu_err_over_tol', abs(nu_fit - nu_exp) / (tol * nu_exp))
    if tol >= 0.05:
        res.count('trivial_nu_checks')
    if not abs(nu_fit - nu_exp) <= tol * nu_exp:
        res.violation(f'{tag}: clip scale fitted from the gradients is {nu_fit:.6g}, the formula min(1, sqrt(kl/|sum<V,D> lr^2|)) gives {nu_exp:.6g} '
                      f'(kl={kl}, lr={lr}, sum<V,D>={vd:.4g}, tol {tol:.2e})', case)
        return False
    for n in names:
        err = kh.rel_err(R[n], nu_fit * V[n])
        if not err <= 2 * tol:
            res.violation(f'{tag}: layer {n} is not the common multiple nu*V of the unclipped preconditioned gradient (rel dev {err:.3e}, tol {2 * tol:.2e}); one scalar must scale every layer', case)
            return False
    if kl is not None and not (nu_fit ** 2 * lr ** 2 * abs(vd) <= kl * (1 + 4 * tol)):
        res.violation(f'{tag}: nu^2 lr^2 |sum<V,D>| = {nu_fit ** 2 * lr ** 2 * abs(vd):.6g} exceeds kl_clip={kl}', case)
        return False
    if probe is not None:
        # information only: the return convention of a private method is not part of the property (an equivalent refactor that
        # clamps in step() instead was flagged by this probe during the site audit); every real violation shows in nu_fit above
        res.count('probe_checks')
        if not abs(probe - nu_exp) <= tol * nu_exp:
            res.count('probe_disagreements_info')
    return nu_exp


def run_single(rng, res, idx):
    import torch
    from kverif import kharness as kh
    from kfac.base_preconditioner import BaseKFACPreconditioner

    klkind = rng.choice(['const', 'const', 'mild', 'big', 'callable', 'none', 'none'])
    # a third of the cases train with a loss scale (documented flow: gradients are unscaled before step(); the clip must not see the scale)
    cfg = kh.make_config(rng, callables=False, intervals='divides', dtypes=('float64', 'float32'), inv_dtypes=('float32', 'float64'), kl=('const',),
                         scaler=rng.random() < 0.35)
    cfg['kl'] = {'const': ('const', rng.choice([1e-3, 1e-4, 1e-2])), 'mild': ('const', rng.choice([0.1, 1.0, 10.0])), 'big': ('const', 1e9),
                 'callable': ('lin', 1e-3, 2.0), 'none': ('none',)}[klkind]
    cfg['lr'] = rng.choice([('const', 0.1), ('const', 1.0), ('const', 0.01), ('inv', 0.5), ('const', 0.0), ('cyc', 0.2, 0.2, 2)])   # lr >= 0 is allowed: 0 gives a zero product, nu = 1
    ext_lr = ext_kl = None
    if rng.random() < 0.3:
        # hyper-parameters given as callables that read external state which the user changes between steps (LR scheduler)
        ext_lr = [rng.choice([0.05, 0.2, 1.0]) * f for f in (1, 2, 0, 0.5, 4, 1)]
        cfg['lr'] = ('ext', f'lr{idx}')
        kh.EXT[f'lr{idx}'] = ext_lr[0]
        if klkind in ('const', 'mild') and rng.random() < 0.5:
            ext_kl = [cfg['kl'][1] * f for f in (1, 0.5, 2, 1, 3, 0.25)]
            cfg['kl'] = ('ext', f'kl{idx}')
            kh.EXT[f'kl{idx}'] = ext_kl[0]
    case = dict(idx=idx, kind='single', cfg=cfg)
    probes = []
    orig = getattr(BaseKFACPreconditioner, '_compute_grad_scale', None)
    if orig is not None:
        def wrapped(self):
            v = orig(self)
            probes.append(v)
            return v
        BaseKFACPreconditioner._compute_grad_scale = wrapped
    try:
        try:
            s = kh.Session(rng, cfg, with_ref=False)
        except kh.ConfigRejected as e:
            res.skip('constructor rejected: ' + str(e)[:40])
            return
        except TypeError as e:
            if klkind == 'none':
                res.count('none_checks')
                return res.violation(f'kl_clip=None (documented: "If None, no scaling/clipping will be applied") is rejected by the constructor: TypeError: {e}', case,
                                     mechanism='kl-clip-none-rejected-by-constructor')
            raise
        case['model'] = s.info['desc']
        # a parameter scheduler may rescale constant lr / kl_clip between steps (it writes the private fields directly)
        sched = None
        sched_mult = {}
        if ext_lr is None and rng.random() < 0.3:
            from kfac.scheduler import LambdaParamScheduler
            lam_kw = {}
            if cfg['lr'][0] == 'const' and cfg['lr'][1] > 0:
                f_lr = rng.choice([0.1, 0.5, 2.0, 10.0])
                lam_kw['lr_lambda'] = lambda st_, f_=f_lr: f_ if st_ % 2 == 1 else 1.0 / f_
                sched_mult['lr'] = lam_kw['lr_lambda']
            if cfg['kl'][0] == 'const' and rng.random() < 0.5:
                f_kl = rng.choice([0.25, 4.0])
                lam_kw['kl_clip_lambda'] = lambda st_, f_=f_kl: f_ if st_ % 2 == 1 else 1.0 / f_
                sched_mult['kl'] = lam_kw['kl_clip_lambda']
            if lam_kw:
                sched = LambdaParamScheduler(s.p, **lam_kw)
                case['scheduler'] = sorted(lam_kw)
                res.count('cases_with_parameter_scheduler')
        cur = dict(lr=cfg['lr'][1] if cfg['lr'][0] == 'const' else None, kl=cfg['kl'][1] if cfg['kl'][0] == 'const' else None)
        nsteps = rng.randint(1, 5) if sched is None else rng.randint(3, 6)
        nontrivial = False
        zero_at = rng.randrange(nsteps) if rng.random() < 0.3 else None
        flip_at = rng.randrange(nsteps) if (cfg['method'] == 'inverse' and rng.random() < 0.25) else None
        for st in range(nsteps):
            if ext_lr is not None:
                kh.EXT[f'lr{idx}'] = ext_lr[st % len(ext_lr)]
            if ext_kl is not None:
                kh.EXT[f'kl{idx}'] = ext_kl[st % len(ext_kl)]
            if st == flip_at and st > 0:
                # negative curvature through the public API: A <- -(A + 2*lambda*I) makes (A + lambda I) negative definite, so sum<V,D> < 0
                sd = s.p.state_dict()
                lam_ = s.p.damping
                for n in sd['layers']:
                    A_ = sd['layers'][n]['A']
                    sd['layers'][n]['A'] = -(A_ + 2 * lam_ * torch.eye(A_.shape[0], dtype=A_.dtype))
                s.p.load_state_dict(sd, compute_inverses=True)
                res.count('negative_curvature_loads')
            s.train_iteration()
            if st == zero_at:
                with torch.no_grad():
                    for q in s.model.parameters():
                        if q.grad is not None:
                            q.grad.zero_()
            elif len(s.layers) >= 2 and random.Random(stable_hash('zero-layer', idx, st)).random() < 0.25:
                # some registered layers have an exactly zero gradient this step (an auxiliary head with loss weight 0, a dead
                # branch): their <V, D> is 0, all the other layers still count in the sum
                zr = random.Random(stable_hash('zero-layer-choice', idx, st))
                names = sorted(s.layers)
                for n_ in zr.sample(names, zr.randint(1, len(names) - 1)):
                    with torch.no_grad():
                        for q in s.layers[n_].parameters(recurse=False):
                            if q.grad is not None:
                                q.grad.zero_()
                res.count('steps_with_some_zero_gradient_layers')
            D = s.grads()
            lam = s.p.damping
            kl = kh.mk(cfg['kl'])
            kl = kl(s.p.steps) if callable(kl) else kl
            lr = kh.mk(cfg['lr'])
            lr = lr(s.p.steps) if callable(lr) else lr
            if 'lr' in sched_mult:
                lr = cur['lr']
            if 'kl' in sched_mult:
                kl = cur['kl']
            del probes[:]
            s.p.step()
            R = s.grads()
            if sched is not None:
                k_ = s.p.steps
                sched.step()
                for key in sched_mult:
                    cur[key] = cur[key] * sched_mult[key](k_)
            # a user logging the hyper-parameters after the step (reads must not influence later steps)
            _ = (s.p.lr, s.p.kl_clip, s.p.damping, s.p.factor_decay, s.p.factor_update_steps, s.p.inv_update_steps)
            res.count('property_reads_between_steps')
            if st == zero_at:
                res.count('zero_grad_checks')
                if any(not torch.isfinite(R[n]).all() or float(R[n].abs().max()) != 0 for n in R):
                    return res.violation(f'step {st}: all-zero gradients did not give an all-zero finite result', case)
                continue
            out = check_step(res, case, cfg, D, R, s.factors(), lam, kl, lr, f'step {st}', probes[-1] if probes else None)
            if out is False:
                return
            if klkind == 'none':
                res.count('none_checks')
                V, _ = solve_all(cfg, D, s.factors(), lam)
                vg = sum(float((V[n] * D[n]).sum()) for n in D) * lr ** 2
                if vg != 0 and math.sqrt(1e-3 / abs(vg)) < 0.9:
                    nontrivial = True
                if probes:
                    res.count('clip_scale_computed_although_none_info')   # a private call is no verdict; the gradients were compared above
            elif out is not None and out < 0.9:
                nontrivial = True
        if nontrivial:
            res.nontrivial.add(stable_hash(s.info['desc'], cfg))
        res.sample(dict(idx=idx, kind='single', model=s.info['desc'], cfg={k: cfg[k] for k in ('method', 'prediv', 'kl', 'lr', 'damping')}, steps=nsteps))
    finally:
        if orig is not None:
            BaseKFACPreconditioner._compute_grad_scale = orig


def run_world(rng, res, idx):
    from kverif import kharness as kh, scenario, simdist

    W = rng.choice([2, 3, 4])
    cfg = kh.make_config(rng, callables=False, intervals='divides', dtypes=('float64',), inv_dtypes=('float32', 'float64'), kl=('const',))
    cfg['kl'] = rng.choice([('const', 1e-3), ('const', 1e-4), ('lin', 1e-3, 1.0)])
    cfg['lr'] = rng.choice([('const', 0.1), ('const', 1.0), ('inv', 0.5)])
    cfg['k'] = rng.choice(scenario.divisors(W))
    cfg['colocate'] = True if (cfg['method'] == 'eigen' and cfg['prediv']) else rng.random() < 0.5
    nsteps = rng.randint(1, 4)
    spec = dict(model_seed=rng.randrange(10 ** 6), data_seed=rng.randrange(10 ** 6), batch=rng.randint(1, 4), cfg=cfg, history=[('train',)] * nsteps,
                record=['D', 'layer_grads', 'factors'])
    spec['readback_steps'] = sorted({nsteps - 1} | {t for t in range(nsteps) if rng.random() < 0.5})
    case = dict(idx=idx, kind='world', W=W, cfg=cfg, steps=nsteps)
    run = scenario.run(spec, W, seed=rng.randrange(10 ** 6), policy=simdist.POLICIES[idx % len(simdist.POLICIES)])
    if run.inconclusive:
        res.inconclusive.append('simulator watchdog fired')
        return
    r_, tb = run.first_exception()
    if tb and 'ConfigRejected' in tb.strip().splitlines()[-1]:
        res.skip('constructor rejected')
        return
    if run.failed():
        return res.violation('scenario failed: ' + run.failure_summary(), case)
    active = False
    for st in range(nsteps):
        kl = kh.mk(cfg['kl'])
        kl = kl(st) if callable(kl) else kl
        lr = kh.mk(cfg['lr'])
        lr = lr(st) if callable(lr) else lr
        nus = []
        for r in range(W):
            rec = run.results[r]
            if rec['factors'][st] is None:
                continue
            res.count('world_nu_checks')
            out = check_step(res, case, cfg, rec['D'][st], rec['layer_grads'][st], rec['factors'][st], cfg['damping'][1], kl, lr, f'rank {r}, step {st} (k={cfg["k"]}, W={W})')
            if out is False:
                return
            nus.append(out)
        if nus and nus[0] is not None and nus[0] < 0.9:
            active = True
    if active:
        res.nontrivial.add(stable_hash('world', W, spec['model_seed'], cfg))
    res.sample(dict(idx=idx, kind='world', W=W, k=cfg['k'], cfg={k: cfg[k] for k in ('method', 'prediv', 'kl', 'lr')}, steps=nsteps))


def run_deep(rng, res, idx):
    """Deep models in low precision: the sum over MANY layers of <V, D>, each small next to the running total. Reference:
    an identical twin (same model, same preconditioner, kl_clip=None) gives the unclipped V in the very arithmetic of the run,
    so nu is fitted from R = nu V and the formula is evaluated in float64 on the actual V and D."""
    import copy
    import math
    import warnings
    import torch
    from kfac.preconditioner import KFACPreconditioner

    class Block(torch.nn.Module):
        def __init__(self, w):
            super().__init__()
            self.fc = torch.nn.Linear(w, w)

        def forward(self, x):
            return x + 0.1 * torch.tanh(self.fc(x))

    L = rng.randint(80, 200)
    w = rng.randint(3, 6)
    dt = rng.choice([torch.bfloat16, torch.bfloat16, torch.bfloat16, torch.float32])
    method = rng.choice(['eigen', 'inverse'])
    lr = rng.choice([0.1, 1.0, 0.01])
    target = rng.choice([0.05, 0.3, 0.7])   # the clip scale the case aims at
    case = dict(idx=idx, kind='deep', layers=L + 1, width=w, dtype=str(dt), method=method, lr=lr, target_nu=target)
    g = torch.Generator().manual_seed(rng.randrange(2 ** 31))
    model = torch.nn.Sequential(*[Block(w) for _ in range(L)], torch.nn.Linear(w, 1))
    with torch.no_grad():
        for q in model.parameters():
            q.copy_(torch.randn(q.shape, generator=g) * 0.5)
    model = model.to(dt)
    twin = copy.deepcopy(model)
    x = torch.randn(rng.randint(4, 16), w, generator=g).to(dt)

    def run(m, kl):
        with warnings.catch_warnings():
            warnings.simplefilter('ignore')
            p = KFACPreconditioner(m, kl_clip=kl, lr=lr, damping=0.01, compute_method=method)
        m.zero_grad()
        m(x).float().pow(2).mean().backward()
        D = [q.grad.detach().double().clone() for q in m.parameters()]
        p.step()
        return D, [q.grad.detach().double().clone() for q in m.parameters()]

    D, V = run(twin, None)
    if not all(torch.isfinite(v).all() for v in V):
        return res.skip('non-finite unclipped result in low precision')
    vd = sum(float((v * d).sum()) for v, d in zip(V, D))
    if not (abs(vd) > 1e-12):
        return res.skip('degenerate inner product')
    kl = target ** 2 * lr ** 2 * abs(vd)
    D2, R = run(model, kl)
    res.count('deep_checks')
    if any(not torch.equal(a, b) for a, b in zip(D, D2)):
        return res.skip('twin gradients differ (non-deterministic kernel)')
    vv = sum(float((v * v).sum()) for v in V)
    nu_obs = sum(float((r * v).sum()) for r, v in zip(R, V)) / vv
    nu_exp = min(1.0, math.sqrt(kl / (lr ** 2 * abs(vd))))
    tol = 0.03 if dt == torch.bfloat16 else 1e-4
    res.maxi('max_deep_nu_dev', abs(nu_obs - nu_exp) / nu_exp)
    if not abs(nu_obs - nu_exp) <= tol * nu_exp:
        return res.violation(f'deep model ({L + 1} layers, {dt}): clip scale fitted from the gradients is {nu_obs:.5g}, the formula on the actual V and D gives {nu_exp:.5g} '
                             f'(kl={kl:.4g}, lr={lr}, sum<V,D>={vd:.5g})', case)
    if not nu_obs ** 2 * lr ** 2 * abs(vd) <= kl * (1 + 3 * tol):
        return res.violation(f'deep model ({L + 1} layers, {dt}): nu^2 lr^2 |sum<V,D>| = {nu_obs ** 2 * lr ** 2 * abs(vd):.5g} exceeds kl_clip = {kl:.5g}', case)
    if dt == torch.bfloat16:
        res.nontrivial.add(stable_hash('deep', L, w, method, lr, target))


def plan(tier, seed):
    n = tier_value(tier, 1500, 80000)
    shards = tier_value(tier, 8, 14)
    per = n // shards
    return [dict(first=i * per, count=per, budget_s=tier_value(tier, 45, 420)) for i in range(shards)]


def run_shard(spec, res):
    from kverif.kharness import NonFiniteData
    dl = Deadline(spec['budget_s'])
    for i in range(spec['first'], spec['first'] + spec['count']):
        if dl.over():
            break
        res.evaluations += 1
        from kverif.kharness import call_case
        if i % 187 == 11:
            call_case(res, run_deep, case_rng(spec['seed'], ID, i, 'deep'), res, i, case=dict(idx=i, kind='deep'))
        if i % 5 == 4:
            call_case(res, run_world, case_rng(spec['seed'], ID, i, 'w'), res, i, case=dict(idx=i, kind='world'))
        else:
            call_case(res, run_single, case_rng(spec['seed'], ID, i), res, i, case=dict(idx=i, kind='single'))


def replay(case, res):
    import os
    seed = int(os.environ.get('VERIF_SEED', '0'))
    if case.get('kind') == 'deep':
        run_deep(case_rng(seed, ID, case['idx'], 'deep'), res, case['idx'])
    elif case.get('kind') == 'world':
        run_world(case_rng(seed, ID, case['idx'], 'w'), res, case['idx'])
    else:
        run_single(case_rng(seed, ID, case['idx']), res, case['idx'])
