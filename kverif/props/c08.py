"""C08 - bucketed allreduce is equivalent to per-tensor allreduce.

Oracle: every rank's tensors can be regenerated from the seed, so the expected
value of every future is the direct sum (or mean) over the members of the
requested group (exact for the integer-valued, position-revealing data);
shape/dtype must equal the input's; the backend trace per (rank, group) must be
a contiguous order-preserving segmentation of the submissions obeying the
capacity rule; after flush nothing is pending (second flush issues nothing).
"""
from __future__ import annotations

import math

from kverif.common import Deadline, case_rng, stable_hash, tier_value

ID = 'C08'
LEVEL = 'exploration'
RULE = ('worlds 2-6; group mixtures per communicator (WORLD, pairs, triples, distinct groups of equal size sharing a rank); 1-12 tensors per cycle, 1-D/2-D/3-D shapes, '
        'dtypes {float32,float64,bfloat16,int32,int64} incl. mixed-dtype sequences (an averaged integer tensor resolves to the promoted float dtype, like the unbucketed call), average/symmetric flags, capacities {0, 1 byte, < one tensor, between, > all}, 1-4 fill/flush cycles (4 % of the cases 12-30 cycles), '
        'per-rank different interleavings across groups, all scheduler policies, line-level callback stress; non-trivial: >=2 tensors share a bucket or >=2 groups are used; '
        'distinct = hash(group mixture, capacity class, flag pattern)')
ASSUMPTIONS = ['all members of a group submit the same tensors for that group in the same order (the API\'s contract)',
               'simdist stands in for the c10d backend; a few worlds per shard run the same per-rank program as real gloo processes (value oracle only, completion callbacks on gloo threads)']
REQUIRED = ['value_checks', 'segmentation_checks', 'multi_tensor_buckets', 'multi_group_runs']

DTS = {'float32': 4, 'float64': 8, 'bfloat16': 2, 'int32': 4, 'int64': 8}


def make_plan(rng):
    W = rng.choice([2, 3, 4, 4, 5, 6])
    style = rng.choice(['world', 'world', 'mixed', 'equal_size', 'pairs'])
    groups = [None]
    if W >= 3 and style != 'world':
        if style == 'equal_size':
            a, b, c = rng.sample(range(W), 3)
            groups = [sorted([a, b]), sorted([a, c])] + ([None] if rng.random() < 0.5 else [])
            if W >= 4 and rng.random() < 0.5:
                groups.append(sorted([b, c]))
        elif style == 'pairs':
            rs = list(range(W))
            rng.shuffle(rs)
            groups = [sorted(rs[i:i + 2]) for i in range(0, W - 1, 2)]
        else:
            groups = [None, sorted(rng.sample(range(W), rng.choice([2, 3])))]
            if rng.random() < 0.5:
                groups.append(sorted(rng.sample(range(W), 2)))
        # distinct groups = distinct member sets (an explicit group equal to WORLD is the same group for this purpose)
        canon = lambda g: tuple(range(W)) if g is None else tuple(g)  # noqa: E731
        groups = [g for i, g in enumerate(groups) if canon(g) not in [canon(x) for x in groups[:i]]]
    mixed_dtype = rng.random() < 0.25
    base_dt = rng.choice(['float32', 'float64', 'bfloat16', 'float32', 'float64', 'bfloat16', 'int32', 'int64'])
    all_dts = ['float32', 'float64', 'bfloat16'] + (['int32', 'int64'] if rng.random() < 0.3 else [])
    real_valued = rng.random() < 0.3
    cycles = []
    long_run = rng.random() < 0.04   # many fill/flush cycles on one communicator: state that only goes wrong after a long history
    for c in range(rng.randint(12, 30) if long_run else rng.randint(1, 4)):
        items = []
        for t in range(rng.randint(1, 3) if long_run else rng.randint(1, 12)):
            sym = rng.random() < 0.3
            if sym:
                k = rng.randint(1, 6)
                shape = (k, k)
            elif rng.random() < 0.06:
                shape = rng.choice([(0,), (0, 3), (2, 0)])   # zero-element tensors are tensors too
            else:
                shape = tuple(rng.randint(1, 5) for _ in range(rng.randint(1, 3)))
            dt = rng.choice(all_dts) if mixed_dtype else base_dt
            items.append(dict(g=rng.randrange(len(groups)), shape=shape, sym=sym, avg=rng.random() < 0.5, dtype=dt))
        cycles.append(items)
    sizes = [packed_numel(it) * DTS[it['dtype']] for c in cycles for it in c]
    pos = [x for x in sizes if x > 0] or [1]
    cap = rng.choice([0, 1, max(1, min(pos) - 1), (min(pos) + max(pos)) // 2 + 1, sum(sizes) // 2 + 1, sum(sizes) + 1, 25 * 10 ** 6])
    # per-rank order of submissions: keeps the order within a group, interleaves groups differently
    orders = []
    for r in range(W):
        ro = []
        for items in cycles:
            per_g = {}
            for ti, it in enumerate(items):
                per_g.setdefault(it['g'], []).append(ti)
            seq = []
            pools = {g: list(v) for g, v in per_g.items()}
            while pools:
                g = rng.choice(sorted(pools))
                seq.append(pools[g].pop(0))
                if not pools[g]:
                    del pools[g]
            ro.append(seq)
        orders.append(ro)
    # results are either awaited after every cycle or only after the last one (buckets of cycle i may then still be in
    # flight, their completion callbacks pending, while cycle i+1 fills new buckets)
    return dict(W=W, groups=groups, cycles=cycles, cap=cap, orders=orders, real=real_valued, mixed_dtype=mixed_dtype, defer=rng.random() < 0.5)


def packed_numel(it):
    if it['sym']:
        k = it['shape'][0]
        return k * (k + 1) // 2
    return math.prod(it['shape'])


def data(rank, ci, ti, it, real):
    import torch
    g = torch.Generator().manual_seed(100003 * ci + 101 * ti + rank)
    if real:
        t = torch.randn(it['shape'], generator=g, dtype=torch.float64)
    else:
        t = torch.randint(-20, 20, it['shape'], generator=g).double()
    if it['sym']:
        t = t + t.t()
    return t.to(getattr(torch, it['dtype']))


def members(plan, gi):
    g = plan['groups'][gi]
    return list(range(plan['W'])) if g is None else g


def rank_fn(plan):
    import torch
    import torch.distributed as dist
    from kverif import simdist

    def fn(rank, world):
        from kfac.distributed import TorchDistributedCommunicator

        handles = []
        for g in plan['groups']:
            handles.append(None if g is None else dist.new_group(g))
        comm = TorchDistributedCommunicator(bucket_cap_mb=plan['cap'] / 1e6)
        direct = TorchDistributedCommunicator(bucket_cap_mb=plan['cap'] / 1e6)
        out = []
        for ci, items in enumerate(plan['cycles']):
            simdist.phase(('cycle', ci))
            futs = {}
            for ti in plan['orders'][rank][ci]:
                it = items[ti]
                if rank not in members(plan, it['g']):
                    continue
                futs[ti] = comm.allreduce_bucketed(data(rank, ci, ti, it, plan['real']), average=it['avg'], symmetric=it['sym'], group=handles[it['g']])
            comm.flush_allreduce_buckets()
            simdist.phase(('second_flush', ci))
            comm.flush_allreduce_buckets()
            simdist.phase(('direct', ci))
            dfuts = {}
            for ti, it in enumerate(items):
                if rank in members(plan, it['g']):
                    dfuts[ti] = direct.allreduce(data(rank, ci, ti, it, plan['real']), average=it['avg'], symmetric=it['sym'], group=handles[it['g']])
            if plan.get('defer'):
                out.append((futs, dfuts))
            else:
                out.append(({ti: (f.wait() if not isinstance(f, torch.Tensor) else f) for ti, f in futs.items()},
                            {ti: (f.wait() if not isinstance(f, torch.Tensor) else f) for ti, f in dfuts.items()}))
        if plan.get('defer'):
            simdist.phase(('final_wait',))
            out = [({ti: (f.wait() if not isinstance(f, torch.Tensor) else f) for ti, f in futs.items()},
                    {ti: (f.wait() if not isinstance(f, torch.Tensor) else f) for ti, f in dfuts.items()}) for futs, dfuts in out]
        return dict(cycles=out, names=['world' if h is None else getattr(h, 'group_name', None) for h in handles])
    return fn


def value_checks(plan, results, res, case, mech_for, where=''):
    """(a) every future resolves to the sum/mean over its group, with the input's shape and dtype; (b) equals the unbucketed allreduce."""
    import torch
    for ci, items in enumerate(plan['cycles']):
        for ti, it in enumerate(items):
            mem = members(plan, it['g'])
            exp = data(mem[0], ci, ti, it, plan['real']).clone()
            for r in mem[1:]:
                exp += data(r, ci, ti, it, plan['real'])
            if len(mem) > 1 and it['avg']:
                exp = (1 / len(mem)) * exp
            for r in mem:
                got, dgot = results[r]['cycles'][ci]
                t = got[ti]
                res.count('value_checks')
                if t.shape != exp.shape:
                    return res.violation(where + f'cycle {ci} tensor {ti} on rank {r}: future resolved to shape {tuple(t.shape)}, input shape {tuple(exp.shape)}', case, mechanism=mech_for('shape'))
                if t.dtype != exp.dtype:
                    return res.violation(where + f'cycle {ci} tensor {ti} on rank {r}: future resolved to dtype {t.dtype}; an unbucketed allreduce of that tensor gives {exp.dtype} (input dtype {it["dtype"]}, average={it["avg"]})', case, mechanism=mech_for('dtype'))
                if exp.numel() == 0:
                    continue   # a zero-element tensor: shape and dtype (checked above) are all there is
                if not exp.dtype.is_floating_point:
                    ok = torch.equal(t, exp)   # integer sums are exact
                elif plan['real'] or it['dtype'] == 'bfloat16':
                    ok = torch.allclose(t.double(), exp.double(), rtol=4 * float(torch.finfo(exp.dtype).eps) * len(mem), atol=1e-30 + 4 * float(torch.finfo(exp.dtype).eps) * float(exp.abs().max()))
                else:
                    ok = torch.equal(t, exp)
                if not ok:
                    return res.violation(where + f'cycle {ci} tensor {ti} (group {mem}, average={it["avg"]}, symmetric={it["sym"]}) on rank {r}: bucketed result differs from the sum over the group '
                                         f'(max dev {(t.double() - exp.double()).abs().max().item():.3g})', case, mechanism=mech_for('value'))
                d = dgot[ti]
                res.count('differential_checks')
                feps = float(torch.finfo(exp.dtype).eps) if exp.dtype.is_floating_point else 0.0
                if d.shape != t.shape or d.dtype != t.dtype or not torch.allclose(d.double(), t.double(), rtol=8 * feps, atol=1e-30 + 8 * feps * float(exp.abs().max())):
                    return res.violation(where + f'cycle {ci} tensor {ti} on rank {r}: bucketed result differs from the unbucketed allreduce of the same tensor', case, mechanism=mech_for('value'))
    return True


def run_case(rng, res, idx, stress=False):
    import torch
    from kverif import simdist

    plan = make_plan(rng)
    policy = simdist.POLICIES[idx % len(simdist.POLICIES)]
    case = dict(idx=idx, W=plan['W'], groups=plan['groups'], cap=plan['cap'], cycles=[[(it['g'], it['shape'], it['dtype'], it['sym'], it['avg']) for it in c] for c in plan['cycles']],
                policy=policy, mixed_dtype=plan['mixed_dtype'], defer=plan['defer'])
    run = simdist.run_world(plan['W'], rank_fn(plan), seed=rng.randrange(10 ** 6), policy=policy, stress=stress, deliver_prob=rng.choice([0.0, 0.5, 1.0]))
    if run.inconclusive:
        res.inconclusive.append('simulator watchdog fired')
        return
    res.count('worlds_run')
    res.count('events', len(run.trace))
    res.count('line_deliveries', run.world.line_deliveries)
    res.add('schedules', run.schedule_hash())
    W = plan['W']
    sizes_used = [len(members(plan, gi)) for gi in range(len(plan['groups']))]
    equal_size_groups = len(set(sizes_used)) < len(sizes_used)

    def mech_for(kind):
        # exact predictions of the two known defective mechanisms (only consulted if listed as known)
        if equal_size_groups:
            return 'bucket-keyed-by-group-size'
        if plan['mixed_dtype'] and kind in ('dtype', 'value'):
            return 'mixed-dtype-bucket-promotes'
        return None

    if run.failed():
        return res.violation('bucketed allreduce scenario failed: ' + run.failure_summary(), case, mechanism=mech_for('fail'))
    multi_bucket = False
    if value_checks(plan, run.results, res, case, mech_for) is not True:
        return
    # (c) segmentation per (rank, group) and (d) second flush issues nothing
    for r in range(W):
        for ci, items in enumerate(plan['cycles']):
            evs = [e for e in run.trace if e['rank'] == r and e['phase'] == ('cycle', ci) and e['kind'] == 'allreduce' and not e['harness']]
            second = [e for e in run.trace if e['rank'] == r and e['phase'] == ('second_flush', ci) and e['kind'] != 'new_group']
            if second:
                return res.violation(f'rank {r}, cycle {ci}: a second flush issued {len(second)} operations (something was still pending)', case)
            for gi in range(len(plan['groups'])):
                mem = members(plan, gi)
                if r not in mem or len(mem) == 1:
                    continue
                subs = [(packed_numel(items[ti]), DTS[items[ti]['dtype']]) for ti in plan['orders'][r][ci] if items[ti]['g'] == gi]
                gname = run.results[r]['names'][gi]
                got = [e for e in evs if e['group'] == gname]
                res.count('segmentation_checks')
                ok, nmulti = segment([e['numel'] for e in got], subs, plan['cap'])
                if ok and nmulti:
                    multi_bucket = True
                    res.count('multi_tensor_buckets', nmulti)
                if not ok:
                    return res.violation(f'rank {r}, cycle {ci}, group {mem}: all_reduce sizes {[e["numel"] for e in got]} are not an order-preserving segmentation of the submitted '
                                         f'packed sizes {[s[0] for s in subs]} under capacity {plan["cap"]} bytes (each tensor exactly once, no bucket over capacity unless single)', case,
                                         mechanism=mech_for('segment'))
    ngroups = len({it['g'] for c in plan['cycles'] for it in c})
    if ngroups >= 2:
        res.count('multi_group_runs')
    if multi_bucket or ngroups >= 2:
        capclass = 'tiny' if plan['cap'] <= 1 else ('huge' if plan['cap'] >= 10 ** 6 else 'mid')
        res.nontrivial.add(stable_hash(plan['groups'], capclass, [[(it['sym'], it['avg'], it['g']) for it in c] for c in plan['cycles']]))
    res.sample(dict(idx=idx, W=W, groups=plan['groups'], cap=plan['cap'], cycles=[len(c) for c in plan['cycles']], policy=policy))


def real_rank(payload, rank, world):
    """one rank of a REAL gloo world (kverif.realdist): the same per-rank program as on the simulator."""
    plan = make_plan(case_rng(payload['seed'], ID, payload['idx'], 'real'))
    return rank_fn(plan)(rank, world)


def run_real_case(seed, res, idx):
    """The same oracle on real gloo processes: completion callbacks run on gloo's own threads (real concurrency with the
    thread that fills and flushes the buckets); odd cases add line-level yields/sleeps inside kfac/distributed.py."""
    from kverif import realdist

    plan = make_plan(case_rng(seed, ID, idx, 'real'))
    payload = dict(seed=seed, idx=idx, jitter=(0.25 if case_rng(seed, ID, idx, 'jitter').random() < 0.6 else 0), jitter_seed=idx)
    case = dict(real_idx=idx, W=plan['W'], groups=plan['groups'], cap=plan['cap'], jitter=payload['jitter'],
                cycles=[[(it['g'], it['shape'], it['dtype'], it['sym'], it['avg']) for it in c] for c in plan['cycles']])
    out, err = realdist.run('kverif.props.c08', 'real_rank', payload, plan['W'])
    sizes_used = [len(members(plan, gi)) for gi in range(len(plan['groups']))]

    def mech_for(kind):
        if len(set(sizes_used)) < len(sizes_used):
            return 'bucket-keyed-by-group-size'
        if plan['mixed_dtype'] and kind in ('dtype', 'value'):
            return 'mixed-dtype-bucket-promotes'
        return None

    if err:
        if err.startswith('RANK FAILED') and '/kfac/' in err:
            return res.violation('real gloo world: a rank raised inside kfac: ' + err[-300:], case, mechanism=mech_for('fail'))
        res.count('real_gloo_unavailable')
        return res.skip('real gloo run unavailable: ' + err[:40])
    res.count('real_gloo_worlds')
    res.count('real_gloo_jitter_yields', sum((o['jitter'] or {}).get('yields', 0) for o in out))
    res.count('real_gloo_kfac_lines_traced', sum((o['jitter'] or {}).get('lines', 0) for o in out))
    if value_checks(plan, [o['result'] for o in out], res, case, mech_for, where='real gloo world: ') is True:
        res.add('real_gloo_plans', stable_hash(plan['groups'], plan['cap'], [len(c) for c in plan['cycles']]))


def segment(events, subs, cap):
    """Is `events` (numel per all_reduce) a contiguous, order-preserving segmentation of `subs` [(numel, itemsize)] with at
    least one tensor per all_reduce and no multi-tensor segment above the capacity? Zero-element tensors may sit in either
    neighbouring segment, hence the small search. Returns (ok, number of multi-tensor segments of the found segmentation)."""
    import functools

    @functools.lru_cache(maxsize=None)
    def rec(ei, si):
        if ei == len(events):
            return 0 if si == len(subs) else None
        acc = byt = 0
        for j in range(si, len(subs)):
            acc += subs[j][0]
            byt += subs[j][0] * subs[j][1]
            if acc > events[ei]:
                break
            cnt = j - si + 1
            if acc == events[ei] and not (byt > cap and cnt > 1):
                r = rec(ei + 1, j + 1)
                if r is not None:
                    return r + (1 if cnt > 1 else 0)
        return None
    r = rec(0, 0)
    return (r is not None), (r or 0)


def plan(tier, seed):
    n = tier_value(tier, 960, 80000)
    shards = tier_value(tier, 8, 14)
    per = n // shards
    return [dict(first=i * per, count=per, budget_s=tier_value(tier, 45, 420)) for i in range(shards)]


def run_shard(spec, res):
    import os
    dl = Deadline(spec['budget_s'])
    only_real = int(os.environ.get('KVERIF_C08_ONLY_REAL', '0'))   # diagnostic: skip the simulator, run that many real worlds per shard
    for i in range(spec['first'], spec['first'] + spec['count']):
        if dl.over() or only_real:
            break
        res.evaluations += 1
        run_case(case_rng(spec['seed'], ID, i), res, i, stress=(i % 4 == 0))
    # a few worlds of real gloo processes per shard (quick: 1, thorough: up to 12, while the budget lasts)
    for j in range(only_real or (1 if spec['tier'] == 'quick' else 12)):
        if j and dl.over():
            break
        run_real_case(spec['seed'], res, spec['first'] + j)


def replay(case, res):
    import os
    if 'real_idx' in case:
        return run_real_case(int(os.environ.get('VERIF_SEED', '0')), res, case['real_idx'])
    run_case(case_rng(int(os.environ.get('VERIF_SEED', '0')), ID, case['idx']), res, case['idx'], stress=(case['idx'] % 4 == 0))
