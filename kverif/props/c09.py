"""C09 - checkpoints round-trip and resuming is equivalent to never stopping.

Fault enumeration over the checkpoint position: EVERY step boundary c in 0..T of a run is used as the
save/load point. Oracles: (1) restoration of steps, scalar hyper-parameters and factors is bitwise; (2) a valid
state never raises, a state with another layer count raises ValueError; (3) the continued gradients equal the
uninterrupted real run when the live second-order data was computed from the saved factors or is recomputed on
the next step, and always equal the float64 reference that refreshes at load; (4) include_factors=False and
compute_inverses=False variants.
"""
from __future__ import annotations

import copy
import random
import warnings

from kverif.common import Deadline, case_rng, stable_hash, tier_value

ID = 'C09'
LEVEL = 'fault_enumeration'
RULE = ('for generated runs of T in 4..8 steps (weights evolving by SGD, (F,I) incl. non-multiples, both methods, pre-division, scheduler-modified hyper-parameters) every boundary '
        'c in 0..T is a checkpoint position (fault enumeration over the crash point); single process with the float64 reference in lock-step, and 2-4 simulated ranks under '
        'COMM/HYBRID/MEM-OPT; variants: include_factors=False, compute_inverses=False, wrong layer count; non-trivial: the checkpoint is taken where live second-order data is stale '
        'with respect to the factors, or world>1 with k<W; distinct = hash(config, c)')
ASSUMPTIONS = ['a resume is emulated by a freshly constructed preconditioner on the same model object (the old preconditioner\'s hooks are removed)',
               'tolerances as in C05 for the reference comparison; 1e-9 relative for "equal to the uninterrupted real run"']
REQUIRED = ['boundaries_checked', 'restore_checks', 'resume_equal_checks', 'resume_reference_checks', 'world_boundaries_checked', 'layer_count_checks']


class Runner:
    """One deterministic single-process run; can be replayed up to any boundary."""

    def __init__(self, seed, cfg, T, sched_spec):
        self.seed, self.cfg, self.T, self.sched_spec = seed, cfg, T, sched_spec

    def build(self):
        import torch
        from kverif import gen, kharness as kh, refmodel as rm
        from kfac.preconditioner import KFACPreconditioner
        rng = random.Random(self.seed)
        self.model, self.in_shape, self.info = gen.runnable_model(rng, dtype=kh.DT[self.cfg['pdt']], unsupported=False)
        gen.init_params(self.model, torch.Generator().manual_seed(self.seed))
        self.layers = gen.eligible_layers(self.model)
        self.capture = rm.Capture(self.layers)
        self.kw = kh.precond_kwargs(self.cfg)
        with warnings.catch_warnings():
            warnings.simplefilter('ignore')
            self.p = KFACPreconditioner(self.model, **self.kw)
        self.ref = rm.RefKFAC(list(self.layers), self.cfg['method'], self.cfg['prediv'] and self.cfg['method'] == 'eigen', kh.ref_hp(self.cfg), self.cfg['acc'], self.cfg['hook'])
        self.sched = self.make_sched()

    def make_sched(self):
        from kfac.scheduler import LambdaParamScheduler
        if not self.sched_spec:
            return None
        return LambdaParamScheduler(self.p, **{k + '_lambda': (lambda a: (lambda st: 1.0 + a / (2 + st % 3)))(a) for k, a in self.sched_spec.items()})

    def one_step(self, t):
        import torch
        from kverif import gen, kharness as kh, refmodel as rm
        self.model.train()
        self.model.zero_grad()
        g = torch.Generator().manual_seed(self.seed * 7919 + t)
        for mb in range(self.cfg['acc']):
            x = gen.make_batch(g, self.cfg['batch'], self.in_shape, kh.DT[self.cfg['pdt']])
            self.capture.clear()
            gen.loss_fn(self.cfg['loss'], self.model(x), g).backward()
            for tt in list(self.capture.inp.values()) + list(self.capture.gout.values()):
                if not torch.isfinite(tt).all():
                    raise kh.NonFiniteData()
            self.ref.forward_backward(self.capture.moments(1.0))
        D = {n: rm.combined_grad(m) for n, m in self.layers.items()}
        self.p.step()
        R = {n: rm.combined_grad(m) for n, m in self.layers.items()}
        exp, nu, V, refreshed = self.ref.step(D)
        if self.sched is not None:
            keff = self.p.steps
            self.sched.step()
            keymap = dict(damping='damping', kl_clip='kl', lr='lr')
            for k, a in self.sched_spec.items():
                self.ref.hp[keymap[k]] = self.ref.hp[keymap[k]] * (1.0 + a / (2 + keff % 3))
        with torch.no_grad():
            for q in self.model.parameters():
                if q.grad is not None:
                    q -= 0.05 * q.grad
        return R, exp, refreshed

    def drop_hooks(self):
        for m in self.model.modules():
            for d in (m._forward_pre_hooks, m._backward_hooks):
                for k, h in list(d.items()):
                    if getattr(h, '__self__', None) is self.p:
                        del d[k]

    def fresh_preconditioner(self, perturb_rng=None):
        from kfac.preconditioner import KFACPreconditioner
        from kverif import kharness as kh
        self.drop_hooks()
        with warnings.catch_warnings():
            warnings.simplefilter('ignore')
            # the fresh object may be constructed with other scalar hyper-parameters than the saved run had
            self.p = KFACPreconditioner(self.model, **(kh.perturbed_kwargs(self.kw, perturb_rng) if perturb_rng is not None else self.kw))
        self.sched = self.make_sched()


def sd_equal(a, b):
    import torch
    if set(a) != set(b):
        return 'key sets differ: %s vs %s' % (sorted(a), sorted(b))
    for k in a:
        if k == 'layers':
            if list(a[k]) != list(b[k]):
                return 'layer names differ'
            for n in a[k]:
                for f in ('A', 'G'):
                    x, y = a[k][n][f], b[k][n][f]
                    if (x is None) != (y is None):
                        return f'factor {f} of {n}: None-ness differs'
                    if x is not None and (x.dtype != y.dtype or x.shape != y.shape or not torch.equal(x, y)):
                        return f'factor {f} of {n} not restored bitwise'
        elif a[k] != b[k] or type(a[k]) is not type(b[k]):
            return f'{k}: {a[k]!r} vs {b[k]!r}'
    return None


def run_single(rng, res, idx):
    import torch
    from kverif import kharness as kh, refmodel as rm

    cfg = kh.make_config(rng, callables=True, dtypes=('float64', 'float64', 'float32'), inv_dtypes=('float32', 'float64'), kl=('const', 'big', 'callable', 'none'), max_acc=2)
    cfg['batch'] = rng.randint(1, 5)
    T = rng.randint(4, 8)
    sched_spec = {k: rng.choice([0.2, -0.1, 0.5]) for k, key in (('damping', 'damping'), ('kl_clip', 'kl'), ('lr', 'lr')) if cfg[key][0] == 'const' and rng.random() < 0.35}
    seed = rng.randrange(10 ** 6)
    case = dict(idx=idx, kind='single', cfg=cfg, T=T, scheduler=sched_spec)
    base = Runner(seed, cfg, T, sched_spec)
    try:
        base.build()
    except ValueError as e:
        res.skip('constructor rejected: ' + str(e)[:40])
        return
    case['model'] = base.info['desc']
    base_R = []
    stale_at = {}
    for t in range(T):
        # classification data BEFORE step t (i.e. at boundary t)
        stale_at[t] = boundary_class(base, t)
        R, exp, refreshed = base.one_step(t)
        base_R.append(R)
    stale_at[T] = boundary_class(base, T)
    variants = ['plain'] * 3 + ['no_inverses', 'no_factors']
    for c in range(0, T + 1):
        variant = rng.choice(variants)
        run = Runner(seed, cfg, T, sched_spec)
        run.build()
        for t in range(c):
            run.one_step(t)
        res.count('boundaries_checked')
        if variant == 'no_factors' and c > 0:
            sd = copy.deepcopy(run.p.state_dict(include_factors=False))
            before = copy.deepcopy(run.p.state_dict())
            with warnings.catch_warnings(record=True) as wl:
                warnings.simplefilter('always')
                run.p.load_state_dict(sd)   # into the live preconditioner: factors must stay untouched
            res.count('no_factor_loads')
            if 'layers' in sd:
                return res.violation(f'boundary {c}: state_dict(include_factors=False) contains layers', case, c=c)
            msg = sd_equal(before, run.p.state_dict())
            if msg:
                return res.violation(f'boundary {c}: loading a state without factors changed the preconditioner: {msg}', case, c=c)
            if not any('not included' in str(w.message) or 'inverses cannot be computed' in str(w.message) for w in wl):
                return res.violation(f'boundary {c}: loading a state without factors (compute_inverses=True) did not warn', case, c=c)
            continue
        sd = copy.deepcopy(run.p.state_dict())
        want = copy.deepcopy(sd)
        st_ref = run.ref.save()
        perturbed = rng.random() < 0.5
        run.fresh_preconditioner(perturb_rng=rng if perturbed else None)
        if perturbed:
            res.count('loads_into_differently_configured_preconditioner')
        compute = True
        next_is_refresh = (c % run.ref.val('I') == 0)
        if variant == 'no_inverses' and next_is_refresh and c > 0:
            compute = False
        try:
            run.p.load_state_dict(sd, compute_inverses=compute)
        except Exception as e:  # noqa: BLE001
            mech = 'load-of-state-saved-before-first-step-raises' if (c == 0 and 'before' in str(e) and isinstance(e, RuntimeError)) else None
            return res.violation(f'boundary {c}: loading a valid state (compute_inverses={compute}) raised {type(e).__name__}: {e}', case, c=c, mechanism=mech)
        res.count('restore_checks')
        msg = sd_equal(want, run.p.state_dict())
        if msg:
            return res.violation(f'boundary {c}: state not restored exactly: {msg}', case, c=c)
        if run.p.steps != c:
            return res.violation(f'boundary {c}: steps restored as {run.p.steps}', case, c=c)
        run.ref.load(st_ref, compute_inverses=compute)
        must_equal = stale_at[c]['next_refresh'] or stale_at[c]['fresh']
        for t in range(c, T):
            R, exp, refreshed = run.one_step(t)
            if c == 0 and t == 0:
                pass
            tols = {}
            for n in R:
                kap = run.ref.kappa(n)
                tols[n] = kh.tol_for(cfg, kap, max(exp[n].shape)) + 64 * rm.eps_of(torch.float32 if cfg['pdt'] == 'float32' else torch.float64) * max(1, run.ref.factor_updates) * kap
            for n in R:
                tol = tols[n] + max(tols.values())  # the clip scale couples the layers
                err = kh.rel_err(R[n], exp[n])
                res.count('resume_reference_checks')
                res.maxi('max_resume_ref_err_over_tol', err / tol)
                if not err <= tol:
                    return res.violation(f'checkpoint at boundary {c}: gradient of layer {n} at step {t} deviates from the reference that recomputes second-order data from the '
                                         f'restored factors by {err:.3e} > {tol:.3e} (compute_inverses={compute})', case, c=c, step=t)
                if must_equal:
                    res.count('resume_equal_checks')
                    e2 = kh.rel_err(R[n], base_R[t][n])
                    if not e2 <= 1e-9:
                        return res.violation(f'checkpoint at boundary {c} (next step refreshes={stale_at[c]["next_refresh"]}, live data fresh={stale_at[c]["fresh"]}): '
                                             f'gradient of layer {n} at step {t} differs from the uninterrupted run by {e2:.3e}', case, c=c, step=t)
        if c < T and rng.random() < 0.5:
            # the checkpoint object that was loaded above is loaded a second time, after training continued on the
            # preconditioner it was loaded into: it must still restore the state that was saved
            run.fresh_preconditioner()
            run.p.load_state_dict(sd, compute_inverses=True)
            res.count('second_loads_of_the_same_checkpoint')
            msg = sd_equal(want, run.p.state_dict())
            if msg:
                return res.violation(f'boundary {c}: loading the same in-memory checkpoint a second time (after {T - c} further steps on the preconditioner it was first '
                                     f'loaded into) does not restore the saved state: {msg}', case, c=c)
        if not must_equal:
            res.nontrivial.add(stable_hash(cfg, c, base.info['desc']))
            res.count('stale_boundaries')
    # (2) wrong layer count must be rejected
    res.count('layer_count_checks')
    sd = copy.deepcopy(base.p.state_dict())
    bad = copy.deepcopy(sd)
    if len(bad['layers']) > 1:
        bad['layers'].pop(next(iter(bad['layers'])))
    else:
        bad['layers']['extra'] = copy.deepcopy(next(iter(bad['layers'].values())))
    base.fresh_preconditioner()
    try:
        base.p.load_state_dict(bad)
        return res.violation('a state with a different number of layers was accepted', case)
    except ValueError:
        pass
    res.sample(dict(idx=idx, kind='single', model=base.info['desc'], T=T, cfg={k: cfg[k] for k in ('method', 'prediv', 'F', 'I', 'damping', 'hook', 'acc')}, scheduler=sched_spec))


def boundary_class(runner, c):
    """Is the live second-order data at boundary c what a refresh from the current factors would give?"""
    from kverif import kharness as kh
    ref = runner.ref
    if c == 0 or not ref.snap:
        return dict(next_refresh=True, fresh=True)
    nxt = (c % ref.val('I') == 0)
    fresh = True
    for n in ref.names:
        A, G, lam = ref.snap[n]
        if kh.rel_err(A, ref.A[n]) != 0 or kh.rel_err(G, ref.G[n]) != 0:
            fresh = False
        baked = ref.method == 'inverse' or ref.prediv
        if baked and lam != ref.val('damping'):
            fresh = False
    return dict(next_refresh=nxt, fresh=fresh)


def run_world(rng, res, idx):
    from kverif import kharness as kh, scenario, simdist
    import torch

    W = rng.choice([2, 4, 4, 3])
    cfg = kh.make_config(rng, callables=False, dtypes=('float64',), inv_dtypes=('float32', 'float64'), kl=('const', 'big'), max_acc=2)
    cfg['k'] = rng.choice(scenario.divisors(W))
    cfg['colocate'] = True if (cfg['method'] == 'eigen' and cfg['prediv']) else rng.random() < 0.5
    if rng.random() < 0.4:
        # factors move every step, second-order data is refreshed rarely: most boundaries are then stale ones
        cfg['F'], cfg['I'] = ('const', 1), ('const', rng.choice([2, 3]))
        # ... and they are the ones the cross-strategy reference below is for: float64 second-order data, and mostly the
        # configuration in which a roll-back into the live preconditioner is generated
        cfg['idt'] = 'float64'
        if rng.random() < 0.7:
            cfg['hook'], cfg['acc'] = True, 1
    F, I = cfg['F'][1], cfg['I'][1]
    T = rng.randint(3, 6)
    base_spec = dict(model_seed=rng.randrange(10 ** 6), data_seed=rng.randrange(10 ** 6), batch=rng.randint(1, 3), cfg=cfg, history=[('train',)] * T, record=[], sgd_lr=0.05)
    case = dict(idx=idx, kind='world', W=W, k=cfg['k'], cfg=cfg, T=T)
    seed = rng.randrange(10 ** 6)
    base = scenario.run(base_spec, W, seed=seed, policy='round_robin')
    if base.inconclusive:
        res.inconclusive.append('simulator watchdog fired')
        return
    r_, tb = base.first_exception()
    if tb and 'ConfigRejected' in tb.strip().splitlines()[-1]:
        res.skip('constructor rejected')
        return
    if base.failed():
        return res.violation('uninterrupted scenario failed: ' + base.failure_summary(), case)
    for c in range(0, T + 1):
        spec = copy.deepcopy(base_spec)
        compute = True
        if rng.random() < 0.2 and c % I == 0 and c > 0:
            compute = False
        stale_c = not ((c % I == 0) or (max([t for t in range(c) if t % F == 0], default=-1) <= max([t for t in range(c) if t % I == 0], default=-1)))
        rollback = cfg['hook'] and cfg['acc'] == 1 and c > 0 and rng.random() < (0.7 if stale_c else 0.35)
        if rollback:
            compute = True
            res.count('world_rollbacks_into_live_preconditioner')
        spec['history'] = [('train',)] * c + [('rollback' if rollback else 'load', compute)] + [('train',)] * (T - c)
        if stale_c and T > c and cfg['idt'] == 'float64':
            # the factors of the last step are read back (once, at the very end) to scale the tolerance of the cross-strategy
            # comparison below by the conditioning
            spec['record'] = ['factors']
            spec['readback_steps'] = [T - 1]
        run = scenario.run(spec, W, seed=seed + c, policy=simdist.POLICIES[(idx + c) % len(simdist.POLICIES)])
        if run.inconclusive:
            res.inconclusive.append('simulator watchdog fired')
            return
        res.count('world_boundaries_checked')
        if run.failed():
            txt = run.failure_summary()
            mech = 'load-of-state-saved-before-first-step-raises' if (c == 0 and 'before' in txt and 'has been computed' in txt) else None
            return res.violation(f'checkpoint at boundary {c} on {W} ranks (k={cfg["k"]}): load/continue failed: ' + txt, case, c=c, mechanism=mech)
        for r in range(W):
            ld = run.results[r]['loads'][0]
            if not (ld['factors_ok'] and ld['scalars_ok'] and ld['steps'] == c):
                return res.violation(f'checkpoint at boundary {c}: rank {r} did not restore the state exactly ({ld})', case, c=c)
        lf = max([t for t in range(c) if t % F == 0], default=-1)
        lr_ = max([t for t in range(c) if t % I == 0], default=-1)
        must_equal = (c % I == 0) or (lf <= lr_)
        for t in range(c, T):
            for r in range(W):
                a, b = run.results[r]['grads'][t], base.results[r]['grads'][t]
                if must_equal:
                    res.count('world_resume_equal_checks')
                    e = kh.rel_err(a, b)
                    if not e <= 1e-9:
                        return res.violation(f'checkpoint at boundary {c} on {W} ranks (k={cfg["k"]}, F={F}, I={I}): rank {r} gradient at step {t} differs from the uninterrupted run by {e:.3e}', case, c=c)
                if r > 0 and not torch.equal(a, run.results[0]['grads'][t]):
                    return res.violation(f'checkpoint at boundary {c}: after resuming, rank {r} and rank 0 disagree at step {t}', case, c=c)
        if not must_equal and T > c and cfg['idt'] == 'float64' and spec.get('record') == ['factors']:
            # (float64 second-order data only: strategies legitimately differ by rounding of the inverse dtype times the
            # conditioning - e.g. a symmetric broadcast re-symmetrises an inverse that MEM-OPT uses as computed. A fixed
            # 1e-6 was a false alarm for float32 inverses on the first seed sweep, and for ill-conditioned float64 cases in
            # the first thorough run (deviations 1e-6..2e-5): the tolerance is scaled by the conditioning now)
            # stale boundary: no uninterrupted run to compare with. Metamorphic reference: the SAME checkpointed history under
            # another gradient-worker count must give the same gradients (only who computes and who receives differs) - a
            # restore that goes wrong under one strategy only, identically on all its ranks, shows here
            others = [k2 for k2 in scenario.divisors(W) if k2 != cfg['k']]
            spec2 = copy.deepcopy(spec)
            spec2['cfg']['k'] = rng.choice(others)
            run2 = scenario.run(spec2, W, seed=seed + 100 + c, policy='round_robin')
            if run2.inconclusive:
                res.inconclusive.append('simulator watchdog fired')
                return
            if not run2.failed():
                res.count('world_stale_boundary_cross_strategy_checks')
                from kverif import refmodel as rm
                kap = 1.0
                lam = cfg['damping'][1]
                for n_, (A_, G_) in (run.results[0]['factors'][T - 1] or {}).items():
                    kap = max(kap, rm.kappa_inverse(A_.double(), G_.double(), lam) if cfg['method'] == 'inverse' else rm.kappa_eigen(A_.double(), G_.double(), lam))
                # strategies legitimately differ by rounding times conditioning (a symmetric broadcast re-symmetrises an inverse
                # that MEM-OPT uses as computed): the tolerance C02 uses for two placements, with a floor for the changing factors
                xtol = max(1e-9, kh.tol_for(cfg, kap, 8, with_factor=False))   # observed on the unchanged tree: at most 1e-3 of this
                for t in range(c, T):
                    e = kh.rel_err(run.results[0]['grads'][t], run2.results[0]['grads'][t])
                    res.maxi('max_cross_strategy_err_over_tol', e / xtol)
                    if not e <= xtol:
                        return res.violation(f'checkpoint at stale boundary {c} on {W} ranks: gradients at step {t} with {cfg["k"]} gradient workers differ from those of the same '
                                             f'checkpointed history with {spec2["cfg"]["k"]} gradient workers by {e:.3e}', case, c=c, k2=spec2['cfg']['k'])
            else:
                return res.violation(f'checkpoint at boundary {c} on {W} ranks (k={spec2["cfg"]["k"]}): load/continue failed: ' + run2.failure_summary(), case, c=c)
        if cfg['k'] < W:
            res.nontrivial.add(stable_hash('world', W, cfg, c))
    res.sample(dict(idx=idx, kind='world', W=W, k=cfg['k'], T=T, cfg={kk: cfg[kk] for kk in ('method', 'prediv', 'F', 'I', 'cap', 'sym')}))


def plan(tier, seed):
    n = tier_value(tier, 120, 6400)
    shards = tier_value(tier, 12, 14)
    per = n // shards
    return [dict(first=i * per, count=per, budget_s=tier_value(tier, 50, 560)) for i in range(shards)]


def run_shard(spec, res):
    from kverif.kharness import call_case
    dl = Deadline(spec['budget_s'])
    for i in range(spec['first'], spec['first'] + spec['count']):
        if dl.over():
            break
        res.evaluations += 1
        if i % 3 == 2:
            call_case(res, run_world, case_rng(spec['seed'], ID, i, 'w'), res, i, case=dict(idx=i, kind='world'))
        else:
            call_case(res, run_single, case_rng(spec['seed'], ID, i), res, i, case=dict(idx=i, kind='single'))


def replay(case, res):
    import os
    seed = int(os.environ.get('VERIF_SEED', '0'))
    if case.get('kind') == 'world':
        run_world(case_rng(seed, ID, case['idx'], 'w'), res, case['idx'])
    else:
        run_single(case_rng(seed, ID, case['idx']), res, case['idx'])
