"""C10 - a step touches nothing but the gradients of registered layers.

Oracle: bitwise snapshots (value, shape, dtype, device, strides) of every parameter, buffer and .grad around
every step() and every eval-mode pass; K-FAC state (state_dict, memory_usage, steps) around eval passes; a twin
model without K-FAC must give bitwise equal outputs and pre-step gradients.
"""
from __future__ import annotations

import copy
import warnings

from kverif.common import Deadline, case_rng, stable_hash, tier_value

ID = 'C10'
LEVEL = 'exploration'
RULE = ('generated runnable module trees (conv/linear/residual blocks, BatchNorm/LayerNorm in between, subclasses) with randomly frozen and partially frozen layers and skip patterns, '
        'param dtype {float32,float64,bfloat16}, factor dtypes, inverse dtypes incl. float16/bfloat16 (damping >= 1e-2), both methods, train/eval sequences of 2-8 events; '
        'non-trivial: >=1 unregistered trainable parameter with a gradient and >=1 registered layer; distinct = hash(model description, frozen/skip choice, config)')
ASSUMPTIONS = ['default (contiguous) memory format only', 'the twin-model comparison is restricted to float32/float64 parameters (torch bfloat16 CPU kernels were seen to be non-deterministic)']
REQUIRED = ['shadow_checks', 'step_snapshots', 'unregistered_grad_checks', 'eval_state_checks', 'twin_checks']


def meta(t):
    return (tuple(t.shape), t.dtype, t.device, t.stride(), t.is_contiguous())


def run_case(rng, res, idx):
    import torch
    from kfac.preconditioner import KFACPreconditioner
    from kverif import gen, kharness as kh

    cfg = kh.make_config(rng, callables=False, dtypes=('float64', 'float32', 'float32', 'bfloat16'), factor_dtypes=(None, None, 'float32', 'bfloat16'),
                         inv_dtypes=('float32', 'float32', 'float64', 'bfloat16', 'float16'), kl=('const', 'big', 'none'), scaler=True)
    if rng.random() < 0.5:
        cfg['scale'] = None   # half of the cases run without a gradient scaler
    S = cfg.get('scale') or 1.0
    if kh.low_precision(cfg):
        # keep the damping above the resolution of the low-precision dtype so that "finite inputs" is meaningful
        cfg['damping'] = ('const', max(cfg['damping'][1], 0.05))
    pdt = kh.DT[cfg['pdt']]
    model, in_shape, info = gen.runnable_model(rng, dtype=pdt, unsupported=True, max_layers=5)
    g0 = torch.Generator().manual_seed(rng.randrange(2 ** 31))
    gen.init_params(model, g0)
    elig = gen.eligible_layers(model)
    names = list(elig)
    frozen, part, skips = [], [], []
    for n in names:
        r = rng.random()
        if r < 0.15:
            for q in elig[n].parameters():
                q.requires_grad_(False)
            frozen.append(n)
        elif r < 0.30 and elig[n].bias is not None:
            (elig[n].bias if rng.random() < 0.6 else elig[n].weight).requires_grad_(False)
            part.append(n)
        elif r < 0.50:
            skips.append(rng.choice(['^' + n.replace('.', r'\.') + '$', type(elig[n]).__name__ + '$' if type(elig[n]).__name__.startswith('My') else '^' + n.replace('.', r'\.') + '$']))
    kwcall = False
    if cfg['pdt'] in ('float32', 'float64') and rng.random() < 0.04:
        # one supported layer is called with its input as a keyword argument by its parent
        cand = [i for i, m_ in enumerate(model) if type(m_) in (torch.nn.Linear, torch.nn.Conv2d)]
        if cand:
            i_ = rng.choice(cand)
            model[i_] = gen.KwCall(model[i_])
            kwcall = True
            res.count('models_with_keyword_call')
    inplace_act = False
    if cfg['pdt'] in ('float32', 'float64') and not kwcall and rng.random() < 0.03:
        # an IN-PLACE activation directly after a supported layer (VGG / AlexNet style: Conv2d -> ReLU(inplace=True))
        cand = [i for i, m_ in enumerate(model) if type(m_) in (torch.nn.Linear, torch.nn.Conv2d) and i + 1 < len(model) and type(model[i + 1]) in (torch.nn.Tanh, torch.nn.Sigmoid)]
        if cand:
            model[rng.choice(cand) + 1] = torch.nn.ReLU(inplace=True)
            inplace_act = True
            res.count('models_with_inplace_activation')
    twin = copy.deepcopy(model) if cfg['pdt'] in ('float32', 'float64') else None
    expected = {n for n, _ in gen.expected_registration(model, skips)}
    kw = kh.precond_kwargs(cfg)
    try:
        with warnings.catch_warnings():
            warnings.simplefilter('ignore')
            p = KFACPreconditioner(model, skip_layers=skips, **kw)
    except ValueError as e:
        res.skip('constructor rejected: ' + str(e)[:40])
        return
    case = dict(idx=idx, model=info['desc'], cfg=cfg, frozen=frozen, partially_frozen=part, skip=skips)
    registered = set(p.state_dict()['layers'].keys())
    if not registered:
        res.skip('no layer registered')
        return
    mods = dict(model.named_modules())
    reg_params = {id(q) for n in registered for q in mods[n].parameters()}
    dgen = torch.Generator().manual_seed(rng.randrange(2 ** 31))
    lgen = torch.Generator().manual_seed(1)
    lgen2 = torch.Generator().manual_seed(1)
    saw_unreg_grad = False
    # shadow: an identical model with its own K-FAC preconditioner that sees the train-mode passes only. If eval-mode passes
    # leave ALL K-FAC state unchanged (also state that is not part of state_dict), both stay identical for ever.
    shadow = p_sh = None
    if twin is not None and rng.random() < 0.5 and not inplace_act:
        shadow = copy.deepcopy(twin)
        with warnings.catch_warnings():
            warnings.simplefilter('ignore')
            p_sh = KFACPreconditioner(shadow, skip_layers=skips, **kh.precond_kwargs(cfg))
        lgen3 = torch.Generator().manual_seed(1)
    eqtol = 1e-9 if cfg['pdt'] == 'float64' else 1e-4

    def eval_pass(xe):
        # forward/backward in eval mode that leaves the accumulated .grad of the surrounding window alone
        for mdl, lg in ((model, lgen), (twin, lgen2)):
            if mdl is None:
                continue
            keep = [None if q.grad is None else q.grad.clone() for q in mdl.parameters()]
            mdl.eval()
            o = mdl(xe)
            gen.loss_fn(cfg['loss'], o, lg).backward()
            mdl.train()
            for q, k_ in zip(mdl.parameters(), keep):
                q.grad = k_
        if shadow is not None:
            gen.loss_fn(cfg['loss'], torch.zeros_like(o), lgen3)   # keep the loss generators in step
        res.count('eval_passes_inside_accumulation_windows')

    nev = rng.randint(2, 8)
    for ei in range(nev):
        evk = 'eval' if (ei > 0 and rng.random() < 0.3) else 'train'
        x = gen.make_batch(dgen, rng.randint(2, 6), in_shape, pdt)
        if len(in_shape) == 1 and rng.random() < 0.08:
            x = x[0]   # an unbatched sample: a rank-1 input is a legal input of a Linear
            res.count('unbatched_inputs')
        if evk == 'eval':
            sd0 = copy.deepcopy(p.state_dict())
            mem0 = dict(p.memory_usage())
            st0 = p.steps
            model.eval()
            out = model(x)
            gen.loss_fn(cfg['loss'], out, lgen).backward()
            model.train()
            if twin is not None:
                twin.eval()
                gen.loss_fn(cfg['loss'], twin(x), lgen2).backward()
                twin.train()
            if shadow is not None:
                gen.loss_fn(cfg['loss'], torch.zeros_like(out), lgen3)
            res.count('eval_state_checks')
            sd1 = p.state_dict()
            same = st0 == p.steps and mem0 == dict(p.memory_usage())
            for n in sd0['layers']:
                for f in ('A', 'G'):
                    a, b = sd0['layers'][n][f], sd1['layers'][n][f]
                    same = same and ((a is None) == (b is None)) and (a is None or torch.equal(a, b))
            if not same:
                return res.violation(f'event {ei}: a forward/backward pass in eval mode changed K-FAC state (steps {st0}->{p.steps}, memory {mem0}->{dict(p.memory_usage())})', case)
            continue
        model.zero_grad()
        if twin is not None:
            twin.zero_grad()
        if shadow is not None:
            shadow.zero_grad()
        for mb in range(cfg['acc']):
            if mb:
                x = gen.make_batch(dgen, rng.randint(2, 6), in_shape, pdt)
                if rng.random() < 0.35:
                    eval_pass(gen.make_batch(dgen, rng.randint(1, 4), in_shape, pdt))
            if shadow is not None:
                (gen.loss_fn(cfg['loss'], shadow(x), lgen3) * S).backward()
            if twin is not None:
                tout = twin(x)
                (gen.loss_fn(cfg['loss'], tout, lgen2) * S).backward()
            try:
                out = model(x)
                (gen.loss_fn(cfg['loss'], out, lgen) * S).backward()
            except Exception as e:  # noqa: BLE001
                if twin is None:
                    raise
                mech = None
                if inplace_act and 'BackwardHookFunction' in str(e) and 'modified inplace' in str(e):
                    mech = 'inplace-op-on-output-of-hooked-layer'
                return res.violation(f'event {ei}: with K-FAC registered the forward/backward pass raised {type(e).__name__}: {str(e)[:200]} (the identical model without K-FAC runs)', case,
                                     mechanism=mech)
        if twin is not None:
            res.count('twin_checks')
            if not torch.equal(out, tout):
                return res.violation(f'event {ei}: registering K-FAC changed the model output', case)
            for (n, a), (_, b) in zip(model.named_parameters(), twin.named_parameters()):
                same_g = (a.grad is None and b.grad is None) or (a.grad is not None and b.grad is not None and torch.equal(a.grad, b.grad))
                if not same_g:
                    dev_ = 'one is None' if (a.grad is None or b.grad is None) else f'max abs dev {float((a.grad.double() - b.grad.double()).abs().max()):.3e}, strides {tuple(a.grad.stride())} vs {tuple(b.grad.stride())}'
                    return res.violation(f'event {ei}: registering K-FAC changed the autograd gradient of {n} ({dev_})', case)
        if S != 1.0:
            with torch.no_grad():   # the user unscales the gradients before preconditioning
                for q in model.parameters():
                    if q.grad is not None:
                        q.grad /= S
        if any(q.grad is not None and not torch.isfinite(q.grad).all() for q in model.parameters()) or not torch.isfinite(out).all():
            res.skip('non-finite inputs to the step')
            return
        snapP = {n: (q.detach().clone(), meta(q)) for n, q in model.named_parameters()}
        snapB = {n: (b.detach().clone(), meta(b)) for n, b in model.named_buffers()}
        snapG = {n: (None if q.grad is None else (q.grad.detach().clone(), meta(q.grad))) for n, q in model.named_parameters()}
        kh.step(p, cfg)
        res.count('step_snapshots')
        if shadow is not None:
            if S != 1.0:
                with torch.no_grad():
                    for q in shadow.parameters():
                        if q.grad is not None:
                            q.grad /= S
            kh.step(p_sh, cfg)
            res.count('shadow_checks')
            sda, sdb = p.state_dict(), p_sh.state_dict()
            for n in sda['layers']:
                for f in ('A', 'G'):
                    a, b = sda['layers'][n][f], sdb['layers'][n][f]
                    if (a is None) != (b is None) or (a is not None and not kh.rel_err(a.double(), b.double()) <= eqtol):
                        return res.violation(f'event {ei}: factor {f} of layer {n} differs from that of an identical K-FAC model that saw the same train-mode passes but no '
                                             f'eval-mode passes (eval passes so far must have changed hidden K-FAC state)', case)
            if p.steps != p_sh.steps:
                return res.violation(f'event {ei}: step count {p.steps} differs from the shadow without eval passes ({p_sh.steps})', case)
            if not kh.low_precision(cfg):
                for (n, a), (_, b) in zip(model.named_parameters(), shadow.named_parameters()):
                    if a.grad is not None and not kh.rel_err(a.grad.double(), b.grad.double()) <= max(eqtol, 1e-6):
                        return res.violation(f'event {ei}: preconditioned gradient of {n} differs from that of an identical K-FAC model that saw no eval-mode passes '
                                             f'(rel {kh.rel_err(a.grad.double(), b.grad.double()):.3e})', case)
        for n, q in model.named_parameters():
            v, m = snapP[n]
            if meta(q) != m or not torch.equal(q.detach(), v):
                return res.violation(f'event {ei}: step() changed parameter {n}', case)
            g = snapG[n]
            if id(q) in reg_params:
                if g is None or q.grad is None:
                    return res.violation(f'event {ei}: registered parameter {n} has no gradient', case)
                if meta(q.grad)[:3] != g[1][:3] or (g[1][4] and not q.grad.is_contiguous()):
                    return res.violation(f'event {ei}: gradient of registered parameter {n} changed shape/dtype/device/contiguity: {g[1]} -> {meta(q.grad)}', case)
                if q.grad.shape != q.shape:
                    return res.violation(f'event {ei}: gradient of {n} has shape {tuple(q.grad.shape)} != parameter shape', case)
                if not torch.isfinite(q.grad).all():
                    return res.violation(f'event {ei}: finite inputs but the preconditioned gradient of {n} is not finite (inv dtype {cfg["idt"]}, damping {cfg["damping"]})', case)
                res.count('registered_grad_checks')
            else:
                res.count('unregistered_grad_checks')
                if (g is None) != (q.grad is None) or (g is not None and (meta(q.grad) != g[1] or not torch.equal(q.grad, g[0]))):
                    return res.violation(f'event {ei}: step() changed the gradient of {n}, which is outside the registered layers {sorted(registered)}', case)
                if g is not None and q.requires_grad:
                    saw_unreg_grad = True
        for n, b in model.named_buffers():
            v, m = snapB[n]
            if meta(b) != m or not torch.equal(b, v):
                return res.violation(f'event {ei}: step() changed buffer {n}', case)
    if registered != expected:
        return res.violation(f'registered layers {sorted(registered)} differ from the eligible set {sorted(expected)}', case)
    if saw_unreg_grad:
        res.nontrivial.add(stable_hash(info['desc'], frozen, part, skips, cfg))
    res.sample(dict(idx=idx, model=info['desc'], frozen=frozen, partially_frozen=part, skip=skips, registered=sorted(registered),
                    cfg={k: cfg[k] for k in ('method', 'pdt', 'fdt', 'idt', 'kl')}))


def run_half_edges(rng, res, idx):
    """float16 parameters and gradients near the edge of the format: finite gradients of magnitude up to 1e3, whose products
    with the preconditioned gradients leave float16 inside the clip computation, with learning rates that are exactly zero
    (constant or a warm-up callable) or not. The factors are well conditioned (identity-dominated first update, float32 factors),
    so the preconditioned gradient itself is representable: the result must be finite, with shape and dtype preserved."""
    import warnings
    import torch
    from kfac.preconditioner import KFACPreconditioner

    fi, fh, fo = rng.randint(2, 6), rng.randint(2, 6), rng.randint(1, 4)
    mag = rng.choice([1.0, 30.0, 300.0, 1000.0])
    lrk = rng.choice(['zero', 'zero_callable', 'warmup', 'const'])
    lr = {'zero': 0.0, 'zero_callable': (lambda st: 0.0), 'warmup': (lambda st: 0.1 * st), 'const': 0.1}[lrk]
    kl = rng.choice([0.001, 0.001, 1e-4, None])
    method = rng.choice(['eigen', 'inverse'])
    case = dict(idx=idx, kind='half_edges', dims=[fi, fh, fo], grad_magnitude=mag, lr=lrk, kl_clip=kl, method=method)
    g = torch.Generator().manual_seed(rng.randrange(2 ** 31))
    model = torch.nn.Sequential(torch.nn.Linear(fi, fh), torch.nn.Tanh(), torch.nn.Linear(fh, fo, bias=rng.random() < 0.5))
    with torch.no_grad():
        for q in model.parameters():
            q.copy_(torch.randn(q.shape, generator=g) * 0.5)
    model = model.half()
    import copy as _copy
    plain = _copy.deepcopy(model)   # the same model without K-FAC
    with warnings.catch_warnings():
        warnings.simplefilter('ignore')
        fdt = rng.choice([torch.float32, torch.float32, torch.float16])   # float16 factors: the mean second moment fits, a plain sum would not
        p = KFACPreconditioner(model, factor_dtype=fdt, inv_dtype=torch.float32, kl_clip=kl, lr=lr, damping=rng.choice([0.001, 0.1]), compute_method=method)
    xs = rng.choice([1.0, 1.0, 30.0])
    x = (torch.randn(rng.choice([rng.randint(2, 8), 256, 300]), fi, generator=g) * xs).half()
    case['factor_dtype'], case['input_scale'], case['rows'] = str(fdt), xs, int(x.shape[0])
    plain(x).float().pow(2).mean().backward()
    try:
        model(x).float().pow(2).mean().backward()
    except Exception as e:  # noqa: BLE001
        return res.violation(f'float16 model: with K-FAC registered the forward/backward pass raised {type(e).__name__}: {str(e)[:160]} (the identical model without K-FAC runs)', case)
    with torch.no_grad():   # gradients of the requested magnitude (finite in float16)
        top = max(float(q.grad.float().abs().max()) for q in model.parameters())
        if not top > 0:
            return res.skip('zero gradients')
        for q in model.parameters():
            q.grad.copy_((q.grad.float() * (mag / top)).half())
    if not all(torch.isfinite(q.grad).all() for q in model.parameters()):
        return res.skip('non-finite inputs to the step')
    before = {n: (tuple(q.grad.shape), q.grad.dtype) for n, q in model.named_parameters()}
    p.step()
    res.count('half_edge_checks')
    for n, q in model.named_parameters():
        if (tuple(q.grad.shape), q.grad.dtype) != before[n]:
            return res.violation(f'float16 model: step() changed shape/dtype of the gradient of {n}: {before[n]} -> {(tuple(q.grad.shape), q.grad.dtype)}', case)
        if not torch.isfinite(q.grad).all():
            return res.violation(f'float16 model: finite gradients (max |g| = {mag}) but the preconditioned gradient of {n} is not finite (lr {lrk}, kl_clip {kl}, {method})', case)
    if mag >= 300:
        res.nontrivial.add(stable_hash('half', fi, fh, fo, mag, lrk, kl, method))


def plan(tier, seed):
    n = tier_value(tier, 2000, 150000)
    shards = tier_value(tier, 8, 14)
    per = n // shards
    specs = [dict(first=i * per, count=per, budget_s=tier_value(tier, 45, 420)) for i in range(shards)]
    # the repository's own tests as one more workload: every step() they take is snapshotted (parameters, step count, gradient shape/dtype)
    specs.append(dict(kind='repo_tests', files=tier_value(tier, ['tests/preconditioner_test.py', 'tests/base_preconditioner_test.py', 'tests/training_test.py'], ['tests']), budget_s=900))
    return specs


def run_shard(spec, res):
    if spec.get('kind') == 'repo_tests':
        from kverif import repotests
        return repotests.run('C10', spec['files'], res)
    dl = Deadline(spec['budget_s'])
    from kverif.kharness import call_case as _cc
    for j in range(40 if spec['tier'] == 'quick' else 1500):
        _cc(res, run_half_edges, case_rng(spec['seed'], ID, spec['first'] + j, 'half'), res, spec['first'] + j, case=dict(idx=spec['first'] + j, kind='half_edges'))
    for i in range(spec['first'], spec['first'] + spec['count']):
        if dl.over():
            break
        res.evaluations += 1
        from kverif.kharness import call_case
        call_case(res, run_case, case_rng(spec['seed'], ID, i), res, i, case=dict(idx=i))


def replay(case, res):
    import os
    if 'repo_tests' in case:
        from kverif import repotests
        return repotests.run('C10', case['repo_tests'], res)
    if case.get('kind') == 'half_edges':
        return run_half_edges(case_rng(int(os.environ.get('VERIF_SEED', '0')), ID, case['idx'], 'half'), res, case['idx'])
    run_case(case_rng(int(os.environ.get('VERIF_SEED', '0')), ID, case['idx']), res, case['idx'])
