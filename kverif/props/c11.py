"""C11 - model-parallel sharding is transparent to GPT-NeoX preconditioning.

Oracle: the sharded run of the real GPTNeoXKFACPreconditioner on dp x mp (x pp) simulated ranks is compared, shard by
shard and step by step, with an unsharded real run (plain KFACPreconditioner, eigen, full nn.Linear layers with the
concatenated weights, world = dp) on the same data: factors equal the unsharded ones; every rank holds exactly its
shard of the unsharded gradient (rows for column-parallel, columns for row-parallel, the whole bias for row-parallel),
clipping included; equal across data-parallel replicas and, for replicated parameters, across model-parallel peers.
"""
from __future__ import annotations

from kverif.common import Deadline, case_rng, stable_hash, tier_value

ID = 'C11'
LEVEL = 'exploration'
RULE = ('topologies pp in {1,2}, dp in 1..4, mp in 1..4 (world <= 8, thorough <= 16), stages of column->row MLP blocks and single column / row layers, bias on/off, hidden sizes divisible by mp, '
        'bucketed or not, hook/no-hook, accumulation 1-2, (F,I) in {1,2}, 1-4 steps, kl_clip in {1e9 (inactive), 1e-3 (active)}, all scheduler policies; '
        'non-trivial: mp > 1; distinct = (pp,dp,mp,blocks,bias,clip-active)')
ASSUMPTIONS = ['Megatron Column/RowParallelLinear and the DeepSpeed topology are stand-ins (DESIGN.md 2.4) built on the simulated collectives',
               'pipeline stages are independent (no activations are exchanged between stages)', 'float64 parameters; eigen decompositions are float32 inside kfac, tolerance from measured conditioning']
REQUIRED = ['shard_checks', 'factor_checks', 'replica_checks', 'mp_gt1_runs', 'clip_active_runs']


def run_case(rng, res, idx, tier):
    import torch
    from kverif import kharness as kh, neox, refmodel as rm, simdist

    spec = neox.gen_spec(rng, max_world=tier_value(tier, 8, 16), checkpoint=False)
    pp, dp, mp = spec['pp'], spec['dp'], spec['mp']
    policy = simdist.POLICIES[idx % len(simdist.POLICIES)]
    ntr = len([e for e in spec['history'] if e[0] == 'train'])
    spec['readback_steps'] = sorted({ntr - 1} | {t for t in range(ntr) if rng.random() < 0.5})
    case = dict(idx=idx, spec=spec, policy=policy)
    run = neox.run(spec, seed=rng.randrange(10 ** 6), policy=policy, stress=(idx % 6 == 0))
    if run.inconclusive:
        res.inconclusive.append('simulator watchdog fired')
        return
    if run.failed():
        return res.violation(f'sharded run on pp={pp} dp={dp} mp={mp} failed: ' + run.failure_summary(), case, mechanism=neox.classify_failure(run, spec))
    res.count('worlds_run')
    if mp > 1:
        res.count('mp_gt1_runs')
    clip_active = spec['kl'] < 1
    if clip_active:
        res.count('clip_active_runs')
    from deepspeed.runtime.pipe.topology import PipeModelDataParallelTopology
    topo = PipeModelDataParallelTopology(num_pp=pp, num_mp=mp, num_dp=dp)
    W = pp * dp * mp
    nsteps = len([e for e in spec['history'] if e[0] == 'train'])
    fakecfg = dict(pdt='float64', idt='float32', fdt=None)
    ref = neox.run_unsharded(spec, seed=1)
    if ref.failed():
        res.inconclusive.append('unsharded reference run failed: ' + ref.failure_summary()[:300])
        return
    for stage in range(pp):
        kinds = neox.kinds_of(spec, stage)
        if not kinds:
            res.count('stages_without_kfac_layers')
            continue   # nothing to compare on a stage without K-FAC layers (it still took part in every collective above)
        ranks = [r for r in range(W) if topo.get_coord(r).pipe == stage]
        offset = sum(spec['layers'][:stage])
        for st in range(nsteps):
            ufac = {k.split('.')[-1]: v for k, v in ref.results[0]['factors'][st].items() if k.startswith(f'stages.{stage}.')}
            ugr = ref.results[0]['grads'][st][stage]
            kaps = []
            for li in range(len(kinds)):
                A, G = ufac[str(li)]
                kaps.append(rm.kappa_eigen(A.double(), G.double(), spec['damping']))
            base_tol = max(kh.tol_for(fakecfg, k_, 16) for k_ in kaps)
            if spec.get('fdt'):
                base_tol += max(kaps) * 256 * float(torch.finfo(getattr(torch, spec['fdt'])).eps) * (st + 1)   # factors averaged in another order in low precision
            # factors on the inverse workers
            for r in ranks:
                for name, (A, G) in run.results[r]['factors'][st].items():
                    li = int(name) - offset
                    UA, UG = ufac[str(li)]
                    res.count('factor_checks')
                    ea, eg = kh.rel_err(A.double(), UA.double()), kh.rel_err(G.double(), UG.double())
                    ftol = 1e-9 if A.dtype == torch.float64 else 256 * float(torch.finfo(A.dtype).eps) * (st + 1)
                    if A.shape != UA.shape or G.shape != UG.shape or A.dtype != UA.dtype or not (ea <= ftol and eg <= ftol):
                        return res.violation(f'stage {stage}, step {st}, layer {name} ({kinds[li]}-parallel): factors on inverse worker {r} differ from the unsharded layer\'s '
                                             f'(A {tuple(A.shape)} vs {tuple(UA.shape)} rel {ea:.2e}; G {tuple(G.shape)} vs {tuple(UG.shape)} rel {eg:.2e})', case, stage=stage, step=st)
            # gradients shard by shard
            for r in ranks:
                c = topo.get_coord(r)
                for li, kind in enumerate(kinds):
                    w, b = run.results[r]['grads'][st][li]
                    ew, eb = neox.shard_of(kind, ugr[li][0], ugr[li][1], c.model, mp)
                    res.count('shard_checks')
                    tol = 2 * base_tol
                    errw = kh.rel_err(w.double(), ew.double())
                    res.maxi('max_shard_err_over_tol', errw / tol)
                    # the bias is one column of the layer's combined gradient: its error is measured against the combined norm
                    errb = 0.0 if b is None else float((b.double() - eb.double()).norm()) / max(float(torch.cat([ew.double(), eb.double().reshape(-1, 1)], 1).norm()), 1e-300)
                    if w.shape != ew.shape or not (errw <= tol and errb <= tol):
                        mech = None
                        return res.violation(f'stage {stage}, step {st}, rank {r} (data {c.data}, model {c.model}), layer {li} ({kind}-parallel, bias={spec["bias"]}): gradient shard differs from '
                                             f'the shard of the unsharded result (weight rel {errw:.3e}, bias rel {errb:.3e}, tol {tol:.2e}; clip active={clip_active})', case,
                                             stage=stage, step=st, mechanism=mech)
            # replicas
            for r in ranks:
                c = topo.get_coord(r)
                for r2 in ranks:
                    c2 = topo.get_coord(r2)
                    if r2 <= r:
                        continue
                    for li, kind in enumerate(kinds):
                        w, b = run.results[r]['grads'][st][li]
                        w2, b2 = run.results[r2]['grads'][st][li]
                        if c.model == c2.model:
                            res.count('replica_checks')
                            if not torch.equal(w, w2) or (b is not None and not torch.equal(b, b2)):
                                return res.violation(f'stage {stage}, step {st}: data-parallel replicas {r} and {r2} hold different gradients for layer {li}', case, stage=stage, step=st)
                        elif c.data == c2.data and kind == 'row' and b is not None:
                            res.count('replica_checks')
                            if not torch.allclose(b, b2, rtol=1e-12, atol=0):
                                return res.violation(f'stage {stage}, step {st}: the replicated bias of row-parallel layer {li} differs between model-parallel peers {r} and {r2}', case, stage=stage, step=st)
    if mp > 1:
        res.nontrivial.add(stable_hash(pp, dp, mp, spec['blocks'], spec['biases'], clip_active))
    res.add('topologies', f'{pp}x{dp}x{mp}')
    res.add('schedules', run.schedule_hash())
    res.count('events', len(run.trace))
    res.sample(dict(idx=idx, topology=(pp, dp, mp), blocks=spec['blocks'], bias=spec['bias'], kl=spec['kl'], steps=nsteps, policy=policy))


def plan(tier, seed):
    n = tier_value(tier, 144, 5000)
    shards = tier_value(tier, 12, 14)
    per = n // shards
    return [dict(first=i * per, count=per, budget_s=tier_value(tier, 50, 560)) for i in range(shards)]


def run_shard(spec, res):
    dl = Deadline(spec['budget_s'])
    for i in range(spec['first'], spec['first'] + spec['count']):
        if dl.over():
            break
        res.evaluations += 1
        run_case(case_rng(spec['seed'], ID, i), res, i, spec['tier'])


def replay(case, res):
    import os
    for tier in ('quick', 'thorough'):
        run_case(case_rng(int(os.environ.get('VERIF_SEED', '0')), ID, case['idx']), res, case['idx'], tier)
