"""C12 - GPT-NeoX assignment is consistent across the 3-D topology.

Oracle: one real GPTNeoXAssignment per rank (torch.distributed.new_group replaced by a recorder); all public
queries are compared across the rank views with relations derived from the topology coordinates only; the
inverse-worker choice must be explainable by a least-loaded greedy replay (ties free); the sequence of
new_group calls must be identical on all ranks. simdist runs (C03) cover the same clause on the real front-end.
"""
from __future__ import annotations

from unittest import mock

from kverif.common import Deadline, case_rng, stable_hash, tier_value

ID = 'C12'
LEVEL = 'exploration'
EXHAUSTIVE = True
EXHAUSTIVE_SCOPE = 'every (pipe,data,model) with product <= bound and every local rank is instantiated; cost dictionaries are drawn per family'
RULE = ('exhaustive over (pipe,data,model) with product <= 24 (thorough <= 96), every local rank, cost families (uniform, ties, zeros, random, geometric, ragged = layers with different factor sets, near_ties = n**3-sized integer costs differing by less than single precision resolves; 1..2*stage+1 layers); '
        'non-trivial: world>1 and (model>1 or data>1); distinct = (pp,dp,mp,family); digests compared across PYTHONHASHSEED 0/1/4242')
ASSUMPTIONS = ['the DeepSpeed topology is the stand-in in stubs/deepspeed (axes pipe,data,model; row-major)',
               'group handles are opaque recorder tuples']
REQUIRED = ['relation_checks', 'replay_accepts', 'new_group_sequences_compared']


def make_work(rng, fam, stage_size):
    L = rng.choice([1, 2, max(1, stage_size - 1), stage_size, stage_size + 1, 2 * stage_size + 1])
    L = min(L, 40)
    if fam == 'uniform':
        return {f'l{i}': {'A': 1, 'G': 1} for i in range(L)}
    if fam == 'ties':
        return {f'l{i}': {'A': rng.choice([1, 2]), 'G': rng.choice([1, 2])} for i in range(L)}
    if fam == 'zeros':
        return {f'l{i}': {'A': rng.choice([0, 0, 1]), 'G': 0} for i in range(L)}
    if fam == 'near_ties':
        # realistic n**3 costs (1e9..1e12, exact as integers) that differ by far less than single precision resolves: every
        # rank of the stage first gets one of the big layers, and the next layer must go to the one that is lighter by a hair
        X = rng.choice([511, 1025, 4097, 8193]) ** 3 + rng.randrange(1000)
        n_big = min(max(2, stage_size), 12)
        deltas = sorted(rng.sample(range(1, 40000), n_big), reverse=True)
        out = {f'big{i}': {'A': X + d, 'G': rng.choice([0, 0, 7])} for i, d in enumerate(deltas)}
        for j in range(rng.randint(1, 4)):
            out[f'small{j}'] = {'A': rng.choice([129, 257, 1025]) ** 3, 'G': rng.choice([64, 129]) ** 3}
        return out
    if fam == 'ragged':
        # layers with different numbers of factors (only A, only G, both, or a third one): the load of a layer is the sum of ITS factors
        out = {}
        for i in range(L):
            fs = rng.choice([('A',), ('G',), ('A', 'G'), ('A', 'G'), ('A', 'G', 'X')])
            out[f'l{i}'] = {f: rng.choice([1, 2, 3, 5, 8]) for f in fs}
        return out
    if fam == 'geometric':
        return {f'l{i}': {'A': 2.0 ** (i % 25), 'G': 3.0 ** (i % 15)} for i in range(L)}
    return {f'{i}.dense': {'A': rng.random() * 100, 'G': rng.random()} for i in range(L)}


def check_topology(pp, dp, mp, fam, rng, res):
    from deepspeed.runtime.pipe.topology import PipeModelDataParallelTopology
    from kfac.gpt_neox.assignment import GPTNeoXAssignment
    from kverif.props.c17 import Budget, replay_search

    W = pp * dp * mp
    topo = PipeModelDataParallelTopology(num_pp=pp, num_mp=mp, num_dp=dp)
    case = dict(pp=pp, dp=dp, mp=mp, family=fam)
    # layers differ per pipeline stage (each stage owns its own layers)
    works = [make_work(rng, fam, dp * mp) for _ in range(pp)]
    if pp > 1 and rng.random() < 0.35:
        works[rng.randrange(pp)] = {}   # a stage without K-FAC layers (e.g. only embeddings): it must still take part in group creation
    calls = {}
    As = []
    for r in range(W):
        calls[r] = []
        c = topo.get_coord(r)

        def rec(ranks=None, r=r, **kw):
            calls[r].append(tuple(ranks) if ranks is not None else None)
            return ('grp', tuple(ranks) if ranks is not None else None)
        with mock.patch('torch.distributed.new_group', side_effect=rec):
            dpg = ('dp', tuple([g for g in topo.get_axis_comm_lists('data') if r in g][0]))
            mpg = ('mp', tuple([g for g in topo.get_axis_comm_lists('model') if r in g][0]))
            As.append(GPTNeoXAssignment(works[c.pipe], local_rank=r, topology=topo, data_parallel_group=dpg, model_parallel_group=mpg))
    res.count('new_group_sequences_compared')
    for r in range(1, W):
        if calls[r] != calls[0]:
            return res.violation(f'new_group call sequence differs between rank 0 {calls[0]} and rank {r} {calls[r]}', case,
                                 mechanism='neox-stage-group-created-only-by-own-stage')
    res.count('relation_checks')
    digest = []
    for stage in range(pp):
        ranks = [x for x in range(W) if topo.get_coord(x).pipe == stage]
        work = works[stage]
        invs = {}
        for l in work:
            vals = {As[x].inv_worker(l, f) for x in ranks for f in work[l]}
            if len(vals) != 1:
                return res.violation(f'stage {stage}: ranks/factors disagree on the inverse worker of {l}: {sorted(vals)}', case)
            invs[l] = vals.pop()
            if invs[l] not in ranks:
                return res.violation(f'stage {stage}: inverse worker {invs[l]} of {l} is not a rank of the stage {ranks}', case)
        out = {l: {f: invs[l] for f in work[l]} for l in work}
        b = Budget(20000)
        ok = replay_search(work, [ranks], True, out, b)
        if b.n < 0:
            res.count('replay_capped')
        elif not ok:
            return res.violation(f'stage {stage}: inverse workers {invs} cannot be produced by least-loaded greedy assignment in decreasing cost order', case, work=work)
        else:
            res.count('replay_accepts')
        for x in ranks:
            a = As[x]
            c = topo.get_coord(x)
            # only the inverse worker's model-parallel peers precondition, so every other data-parallel replica must be sent the
            # gradient (flag True whenever dp > 1; with dp == 1 there is nobody to send to and either value is acceptable) and
            # second-order data never travels
            if (dp > 1 and not a.broadcast_gradients()) or a.broadcast_inverses():
                return res.violation(f'rank {x}: broadcast flags {(a.broadcast_gradients(), a.broadcast_inverses())} (dp={dp})', case)
            if tuple(a.get_layers()) != tuple(work):
                return res.violation(f'rank {x}: get_layers() {a.get_layers()} != its stage layers', case)
            for l in work:
                ci = topo.get_coord(invs[l])
                fw = a.factor_worker(l, next(iter(work[l])))
                cf = topo.get_coord(fw)
                if any(a.factor_worker(l, f) != fw for f in work[l]):
                    return res.violation(f'rank {x}: factor workers of the factors of {l} differ', case)
                if not ((cf.pipe, cf.data) == (c.pipe, c.data) and (cf.pipe, cf.model) == (ci.pipe, ci.model)):
                    return res.violation(f'rank {x} {tuple(c)}: factor_worker({l})={fw} {tuple(cf)} is not in its own model-parallel group and the inverse worker\'s '
                                         f'({invs[l]} {tuple(ci)}) data-parallel group', case)
                src = a.src_grad_worker(l)
                cs = topo.get_coord(src)
                if not ((cs.pipe, cs.model) == (c.pipe, c.model) and (cs.pipe, cs.data) == (ci.pipe, ci.data)):
                    return res.violation(f'rank {x} {tuple(c)}: src_grad_worker({l})={src} {tuple(cs)} is not the member of its own data-parallel group that is a '
                                         f'model-parallel peer of the inverse worker {invs[l]} {tuple(ci)}', case)
                exp_gw = (c.pipe, c.data) == (ci.pipe, ci.data)
                if a.is_grad_worker(l) != exp_gw:
                    return res.violation(f'rank {x} {tuple(c)}: is_grad_worker({l})={a.is_grad_worker(l)} but the inverse worker is {invs[l]} {tuple(ci)}', case)
                if a.grad_receiver_group(l) != ('dp', tuple([g for g in topo.get_axis_comm_lists('data') if x in g][0])):
                    return res.violation(f'rank {x}: grad_receiver_group is not its data-parallel group', case)
        digest.append(sorted(invs.items()))
    if W > 1 and (mp > 1 or dp > 1):
        res.nontrivial.add(stable_hash(pp, dp, mp, fam))
    res.add('digest_parts', stable_hash(pp, dp, mp, fam, digest, calls[0]))
    res.add('topologies', f'{pp}x{dp}x{mp}')
    res.sample(dict(case, world=W, layers_per_stage=[len(w) for w in works], new_group_calls=calls[0][:4]))


FAMS = ['uniform', 'ties', 'zeros', 'geometric', 'random', 'ragged', 'near_ties']


def topologies(limit):
    out = []
    for pp in range(1, 9):
        for dp in range(1, limit + 1):
            for mp in range(1, 9):
                if pp * dp * mp <= limit:
                    out.append((pp, dp, mp))
    return out


def plan(tier, seed):
    tops = topologies(tier_value(tier, 24, 96))
    nsh = tier_value(tier, 4, 8)
    specs = []
    for hs in (0, 1, 4242):
        for s in range(nsh):
            specs.append(dict(tops=tops[s::nsh], part=s, hashseed=hs, budget_s=tier_value(tier, 180, 600)))
    return specs


def run_shard(spec, res):
    dl = Deadline(spec['budget_s'])
    for (pp, dp, mp) in spec['tops']:
        for fam in FAMS:
            if dl.over():
                res.inconclusive.append('topology shard hit its time budget')
                break
            res.evaluations += 1
            check_topology(pp, dp, mp, fam, case_rng(spec['seed'], ID, pp * 10000 + dp * 100 + mp, fam), res)
    dig = stable_hash(sorted(res.sets.pop('digest_parts', [])))
    res.add(f'digest:{spec["part"]}:n{res.evaluations}', dig)


def postcheck(counters, maxima, sets):
    """one digest per shard part and hash seed; shards of the same part that evaluated the same number of cases share a key,
    so more than one digest under a key means the result depends on the interpreter's hash seed."""
    out = []
    by = {}
    for k, v in sets.items():
        if k.startswith('digest:'):
            by.setdefault(k.split(':')[1], set()).update((k, d) for d in v)
    for part, items in by.items():
        digs = {d for _, d in items}
        keys = {k for k, _ in items}
        if len(keys) == 1 and len(digs) != 1:
            out.append(dict(what=f'assignment digests of shard {part} differ between PYTHONHASHSEED values (digests {sorted(digs)})', mechanism=None, case=dict(part=part)))
    return out


def coverage_extra(counters, maxima, sets):
    return {'hash_seeds_compared': 3}


def replay(case, res):
    import os
    seed = int(os.environ.get('VERIF_SEED', '0'))
    pp, dp, mp = case['pp'], case['dp'], case['mp']
    check_topology(pp, dp, mp, case['family'], case_rng(seed, ID, pp * 10000 + dp * 100 + mp, case['family']), res)
