"""C13 - memory and communication placement follow the KAISA strategy.

Oracle: (1) generic walk over the tensors reachable from each layer object per
rank: second-order bytes > 0 iff the rank is a gradient worker of the layer,
and memory_usage() equals the bytes walked; (2) per-step accounting of the
backend trace by group class (default / gradient-worker column / receiver row):
operation kinds, volumes, roots.
"""
from __future__ import annotations

from kverif.common import Deadline, case_rng, stable_hash, tier_value

ID = 'C13'
LEVEL = 'exploration'
RULE = ('worlds {1,2,3,4,6,8}, every divisor k, both methods, pre-divided eigenvalues on/off, symmetric on/off, colocate on/off, bucketed or not, hook/no-hook, '
        '1-8 steps with constant or callable (F,I); histories are construction + steps, 30% with a checkpoint restored into a fresh preconditioner between two steps; non-trivial: world>1; distinct = (W,k,method,flags,(F,I))')
ASSUMPTIONS = ['tensors held by a layer are those reachable from vars(layer), directly or inside tuples, lists and dicts (futures resolved, module and communicator excluded)',
               'partition_grad_receivers / is_grad_worker of the rank views define the row / column groups', 'simdist stands in for the backend']
REQUIRED = ['held_checks', 'step_accounting_checks', 'world_of_one_runs']

FACT = ('_a_factor', '_g_factor')
BATCH = ('_a_batch', '_g_batch')


def tri(n):
    return n * (n + 1) // 2


def held_checks(recs, W, k, names, nsteps, res, case, where=''):
    """(1) per rank and layer: second-order bytes > 0 iff gradient worker; memory_usage() equals the bytes walked - at step
    boundaries and, from the second iteration on, in the middle of an iteration (after the backward passes, before step(),
    when batch buffers of an accumulation window or of the no-hook mode are alive)."""
    for r in range(W):
        states = [(f'after step {st}', recs[r]['held'][st], recs[r]['mem'][st]) for st in range(nsteps) if recs[r]['held'][st] is not None]
        states += [(f'inside iteration {st} (after backward, before step)', h, pm) for st, (h, pm) in sorted(recs[r].get('held_mid', {}).items()) if int(st) >= 1]
        for when, hs, pm in states:
            total_rep = 0
            if when.startswith('inside'):
                res.count('mid_iteration_states_checked')
            for n in names:
                h = hs[n]
                held, rep = h['held'], h['reported']
                second = sum(v for a, v in held.items() if a not in FACT + BATCH + ('_grad',))
                isgw = recs[r]['assignment'][n]['is_grad_worker']
                res.count('held_checks')
                if (second > 0) != isgw:
                    return res.violation(where + f'rank {r}, layer {n}, {when}: holds {second} bytes of second-order data {[a for a in held if a not in FACT + BATCH]} '
                                         f'but is_grad_worker={isgw} (W={W}, k={k})', case, rank=r, layer=n)
                fac = sum(held.get(a, 0) for a in FACT)
                bat = sum(held.get(a, 0) for a in BATCH)
                rep_fac = rep.get('a_factors', 0) + rep.get('g_factors', 0)
                rep_bat = rep.get('a_batch', 0) + rep.get('g_batch', 0)
                rep_inv = rep.get('a_inverses', 0) + rep.get('g_inverses', 0)
                if bat:
                    res.count('states_with_live_batch_buffers')
                if (rep_fac, rep_bat, rep_inv) != (fac, bat, second):
                    return res.violation(where + f'rank {r}, layer {n}, {when}: memory_usage reports factors/batch/second-order = {(rep_fac, rep_bat, rep_inv)} bytes, '
                                         f'tensors actually held = {(fac, bat, second)} ({held})', case, rank=r, layer=n)
                total_rep += sum(rep.values())
            if pm.get('total') != total_rep or sum(v for kk, v in pm.items() if kk != 'total') != total_rep:
                return res.violation(where + f'rank {r}, {when}: preconditioner.memory_usage() = {pm}, sum over layers = {total_rep}', case, rank=r)
    return True


def run_case(rng, res, idx, tier):
    from kfac.assignment import KAISAAssignment
    from kverif import kharness as kh, scenario, simdist

    W = rng.choice([1, 2, 3, 4, 4, 6, 8] if tier == 'quick' else [1, 2, 3, 4, 6, 8, 8])
    k = rng.choice(scenario.divisors(W))
    cfg = kh.make_config(rng, callables=True, dtypes=('float64', 'float32'), inv_dtypes=('float32', 'float64'), kl=('const', 'big'))
    cfg['k'] = k
    cfg['acc'] = rng.choice([1, 1, 2])
    cfg['colocate'] = True if (cfg['method'] == 'eigen' and cfg['prediv']) else rng.random() < 0.5
    nsteps = rng.randint(1, 8)
    history = [('train',)] * nsteps
    # some histories restore a checkpoint into a fresh preconditioner between two steps (construction + load + >=1 step)
    load_at = rng.randint(1, nsteps - 1) if nsteps >= 2 and rng.random() < 0.3 else None
    if load_at is not None:
        history = history[:load_at] + [('load', True)] + history[load_at:]
    spec = dict(model_seed=rng.randrange(10 ** 6), data_seed=rng.randrange(10 ** 6), batch=rng.randint(1, 3), cfg=cfg,
                history=history, record=['held'])
    # the memory query (which flushes and waits) happens at the last boundary and at a random subset of the others
    spec['held_steps'] = sorted({nsteps - 1} | {t for t in range(nsteps) if rng.random() < 0.4})
    # ... and in the middle of some iterations (after the backward passes, before step())
    spec['held_mid_steps'] = sorted(t for t in range(1, nsteps) if rng.random() < 0.4)
    policy = simdist.POLICIES[idx % len(simdist.POLICIES)]
    case = dict(idx=idx, W=W, k=k, cfg=cfg, steps=nsteps, policy=policy, load_at=load_at)
    run = scenario.run(spec, W, seed=rng.randrange(10 ** 6), policy=policy, stress=(idx % 5 == 0), deliver_prob=rng.choice([0.05, 0.3, 0.6, 1.0]))
    if run.inconclusive:
        res.inconclusive.append('simulator watchdog fired')
        return
    r_, tb = run.first_exception()
    if tb and 'ConfigRejected' in tb.strip().splitlines()[-1]:
        res.skip('constructor rejected configuration')
        return
    if run.failed():
        return res.violation('scenario failed: ' + run.failure_summary(), case)
    res.count('worlds_run')
    if W == 1:
        res.count('world_of_one_runs')
    recs = run.results
    names = recs[0]['layer_names']
    F, I = kh.mk(cfg['F']), kh.mk(cfg['I'])
    Fv = lambda s: F(s) if callable(F) else F  # noqa: E731
    Iv = lambda s: I(s) if callable(I) else I  # noqa: E731
    if held_checks(recs, W, k, names, nsteps, res, case) is not True:
        return
    # ---- (2) trace accounting
    cols = {n: frozenset(r for r in range(W) if recs[r]['assignment'][n]['is_grad_worker']) for n in names}
    rows = {frozenset(x) for x in KAISAAssignment.partition_grad_receivers(W, k)}
    shapes = recs[0]['layer_shapes']
    sym = cfg['sym']
    ev_by = {}
    for e in run.trace:
        if e['kind'] == 'new_group' or e['harness'] or e['phase'] is None:
            continue
        if e['phase'][0] == 'load':
            # communication of the restore itself is not part of any step; it must stay inside gradient-worker groups
            res.count('load_events')
            if e['kind'] != 'broadcast' or e['group'] == 'world' and W > 1 and k < W:
                return res.violation(f'rank {e["rank"]}: {e["kind"]} on group {e["group"]} while restoring a checkpoint (W={W}, k={k})', case)
            continue
        ev_by.setdefault((e['rank'], e['phase'][1]), []).append(e)
    if W == 1 and any(not e['harness'] for e in run.trace if e['kind'] != 'new_group'):
        return res.violation('a world of one issued collectives', case)
    for st in range(nsteps):
        fstep = st % Fv(st) == 0
        istep = st % Iv(st) == 0
        for r in range(W):
            evs = ev_by.get((r, st), [])
            res.count('step_accounting_checks')
            default = [e for e in evs if e['group'] == 'world']
            other = [e for e in evs if e['group'] != 'world']
            # default group: only allreduce, volume = sum of factors on factor steps
            if any(e['kind'] != 'allreduce' for e in default):
                return res.violation(f'step {st}, rank {r}: non-allreduce operation on the default group: {[(e["kind"], e["numel"]) for e in default]}', case, step=st)
            exp_vol = 0
            if fstep and W > 1:
                for n in names:
                    na, ng = shapes[n][0][0], shapes[n][1][0]
                    exp_vol += (tri(na) + tri(ng)) if sym else (na * na + ng * ng)
            got_vol = sum(e['numel'] for e in default)
            if got_vol != exp_vol:
                return res.violation(f'step {st} (factor-update step={fstep}), rank {r}: {got_vol} elements allreduced on the default group, expected {exp_vol} '
                                     f'(each factor exactly once; symmetric={sym})', case, step=st)
            col_exp = {}
            root_exp = {}
            row_exp = 0
            for n in names:
                na, ng = shapes[n][0][0], shapes[n][1][0]
                C = cols[n]
                if istep and k > 1 and r in C:
                    if cfg['method'] == 'inverse':
                        va, vg = ((tri(na), tri(ng)) if sym else (na * na, ng * ng))
                    elif cfg['prediv']:
                        va, vg = na * na, ng * ng + ng * na
                    else:
                        va, vg = na * na + na, ng * ng + ng
                    v = va + vg
                    col_exp[C] = col_exp.get(C, 0) + v
                    # second-order data of a factor comes from the inverse worker of THAT factor (volume per root, order-free)
                    inv_n = recs[0]['assignment'][n]['inv']
                    for f_, vol in (('A', va), ('G', vg)):
                        root_exp[(C, inv_n[f_])] = root_exp.get((C, inv_n[f_]), 0) + vol
                if k < W:
                    row_exp += recs[0]['grad_numel'][n]
            col_got = {}
            root_got = {}
            row_got = 0
            for e in other:
                mem = frozenset(e['group_ranks'])
                if e['kind'] != 'broadcast':
                    return res.violation(f'step {st}, rank {r}: {e["kind"]} on sub-group {sorted(mem)} (only broadcasts are expected there)', case, step=st)
                is_col = mem in set(cols.values())
                is_row = mem in rows
                if is_col:
                    col_got[mem] = col_got.get(mem, 0) + e['numel']
                    root_got[(mem, e['root'])] = root_got.get((mem, e['root']), 0) + e['numel']
                    if not istep:
                        return res.violation(f'step {st}, rank {r}: broadcast on gradient-worker group {sorted(mem)} on a step that is not an inverse-update step', case, step=st)
                    roots = {recs[0]['assignment'][n]['inv'][f] for n in names if cols[n] == mem for f in recs[0]['assignment'][n]['inv']}
                    if e['root'] not in roots:
                        return res.violation(f'step {st}, rank {r}: inverse broadcast on {sorted(mem)} rooted at {e["root"]}, inverse workers there are {sorted(roots)}', case, step=st)
                elif is_row:
                    row_got += e['numel']
                    srcs = {recs[r]['assignment'][n]['src'] for n in names}
                    if e['root'] not in srcs or e['root'] not in mem:
                        return res.violation(f'step {st}, rank {r}: gradient broadcast on {sorted(mem)} rooted at {e["root"]}, expected one of {sorted(srcs)}', case, step=st)
                else:
                    return res.violation(f'step {st}, rank {r}: communication on group {sorted(mem)} which is neither a gradient-worker nor a receiver group', case, step=st)
            if k == 1 and col_got:
                return res.violation(f'step {st}, rank {r}: inverse broadcasts under MEM-OPT', case, step=st)
            if k == W and row_got:
                return res.violation(f'step {st}, rank {r}: gradient broadcasts under COMM-OPT', case, step=st)
            if col_got != col_exp:
                return res.violation(f'step {st} (inverse-update step={istep}), rank {r}: inverse broadcast volume per group {[(sorted(a), b) for a, b in col_got.items()]}, '
                                     f'expected {[(sorted(a), b) for a, b in col_exp.items()]}', case, step=st)
            if root_got != root_exp:
                return res.violation(f'step {st}, rank {r}: inverse broadcast volume per (group, root) {[(sorted(a), ro, b) for (a, ro), b in sorted(root_got.items(), key=str)]}, expected '
                                     f'{[(sorted(a), ro, b) for (a, ro), b in sorted(root_exp.items(), key=str)]}: second-order data of a factor must come from the inverse worker of that factor', case, step=st)
            if row_got != row_exp:
                return res.violation(f'step {st}, rank {r}: {row_got} gradient elements broadcast in the receiver group, expected {row_exp}', case, step=st)
    if W > 1:
        res.nontrivial.add(stable_hash(W, k, cfg['method'], cfg['prediv'], cfg['sym'], cfg['colocate'], cfg['F'], cfg['I'], cfg['cap'] > 0, cfg['hook'], load_at is not None))
        if load_at is not None:
            res.count('histories_with_restore')
    res.count('events', len(run.trace))
    res.add('schedules', run.schedule_hash())
    if 1 < W <= 4 and idx % (24 if tier == 'quick' else 120) == 0:
        # the same scenario as real gloo processes: placement of second-order data and the memory report on real ranks
        import copy as _copy
        from kverif import gloo_xval
        gres, err = gloo_xval.run_gloo(_copy.deepcopy(spec), W)
        if err is not None:
            if 'rank failed' in str(err) and '/kfac/' in str(err):
                return res.violation('real gloo world: a rank raised inside kfac: ' + str(err)[-300:], case)
            res.count('real_gloo_unavailable')
            res.skip('real gloo run unavailable: ' + str(err)[:40])
        else:
            res.count('real_gloo_worlds')
            if held_checks([g['rec'] for g in gres], W, k, names, nsteps, res, case, where='real gloo world: ') is not True:
                return
    res.sample(dict(idx=idx, W=W, k=k, steps=nsteps, cfg={kk: cfg[kk] for kk in ('method', 'prediv', 'sym', 'colocate', 'F', 'I', 'cap', 'hook')}))


def plan(tier, seed):
    n = tier_value(tier, 240, 16000)
    shards = tier_value(tier, 10, 14)
    per = n // shards
    return [dict(first=i * per, count=per, budget_s=tier_value(tier, 45, 480)) for i in range(shards)]


def run_shard(spec, res):
    dl = Deadline(spec['budget_s'])
    for i in range(spec['first'], spec['first'] + spec['count']):
        if dl.over():
            break
        res.evaluations += 1
        run_case(case_rng(spec['seed'], ID, i), res, i, spec['tier'])


def replay(case, res):
    import os
    for tier in ('quick', 'thorough'):
        run_case(case_rng(int(os.environ.get('VERIF_SEED', '0')), ID, case['idx']), res, case['idx'], tier)
