"""C14 - triangular packing of symmetric matrices is lossless; symmetric
communication equals dense communication; invalid shapes are rejected before
any collective is issued.

Oracle: exact round trip with position-revealing contents for every n up to a
bound; simdist runs comparing symmetric vs dense allreduce / broadcast /
allreduce_bucketed bit for bit and asserting an empty backend trace on rejection.
"""
from __future__ import annotations

from kverif.common import Deadline, case_rng, stable_hash, tier_value

ID = 'C14'
LEVEL = 'exploration'
EXHAUSTIVE = True
EXHAUSTIVE_SCOPE = 'round-trip part: every n in 1..N x 4 dtypes x 4 contents x 3 layouts; the communication part is sampled'
RULE = ('[sizes: every n up to 256 (thorough 1024) plus large factors of 1025..6145 rows around powers of two and at random] ' + 'every n in 1..N (quick 256, thorough 1024) x {float16,bfloat16,float32,float64} x contents {min(i,j), max(i,j), random symmetric, '
        'n*i+j symmetrised} x layouts {contiguous, transposed view, strided slice}: exact round trip and packed length n(n+1)/2; '
        'simulated worlds of 2-4 ranks: symmetric vs dense allreduce/broadcast/bucketed exact equality; non-square and non-2-D shapes must raise '
        'NonSquareTensorError with zero backend operations; non-trivial: n>=2; distinct = (n, dtype, content, layout)')
ASSUMPTIONS = ['contents that are not exactly representable in the dtype are skipped (counted)',
               'groups of size 1 short-circuit before validation; that behaviour is recorded, not judged',
               'simdist stands in for the c10d backend (see DESIGN.md section 2.1); a few worlds per shard run the same per-rank program as real gloo processes '
               '(counted as real_gloo_worlds; gloo being unavailable or timing out is a counted skip, never a verdict)']
REQUIRED = ['roundtrip_checks', 'comm_equalities', 'reject_checks']


def same(a, b):
    """exact equality that also holds for matrices with NaN entries (NaN must come back as NaN)."""
    import torch
    return a.shape == b.shape and a.dtype == b.dtype and bool(((a == b) | (torch.isnan(a) & torch.isnan(b))).all())


def extreme(n, dt, seed):
    """symmetric matrix whose entries come from the edges of the dtype: largest finite, above half of it, infinities, denormals, signed zero, NaN."""
    import torch
    fi = torch.finfo(dt)
    pal = torch.tensor([fi.max, -fi.max, 0.75 * fi.max, -0.6 * fi.max, float('inf'), -float('inf'), fi.tiny, fi.tiny / 4, -0.0, 1.0, float('nan'), 3.0],
                       dtype=torch.float64).to(dt)
    g = torch.Generator().manual_seed(seed)
    k = torch.randint(0, len(pal), (n, n), generator=g)
    k = torch.triu(k) + torch.triu(k, 1).t()
    return pal[k]


def roundtrip(n, res):
    import torch
    from kfac.distributed import fill_triu, get_triu

    i = torch.arange(n)
    if n <= 1024:
        # an earlier call in the same process on a WIDE block with the same number of rows (get_triu accepts rows <= cols):
        # nothing of it may leak into the square round trips below (process-level caches keyed too coarsely)
        wide = torch.arange(n * (n + 1 + n % 3), dtype=torch.float64).reshape(n, n + 1 + n % 3)
        tw = get_triu(wide)
        iw = torch.triu_indices(n, wide.shape[1])
        res.count('wide_block_calls')
        if not torch.equal(tw, wide[iw[0], iw[1]]):
            return res.violation(f'get_triu of a wide {n} x {wide.shape[1]} block is not its upper triangle', dict(n=n, wide_cols=int(wide.shape[1])))
    big = n > 1024   # large factors (thousands of rows): a reduced menu keeps the cost bounded
    for dt in ((torch.float32, torch.bfloat16) if big else (torch.float16, torch.bfloat16, torch.float32, torch.float64)):
        contents = {} if big else {
            'min': torch.minimum(i[:, None], i[None, :]).double(),
            'max': torch.maximum(i[:, None], i[None, :]).double(),
        }
        g = torch.Generator().manual_seed(n)
        r = torch.randn(n, n, generator=g, dtype=torch.float64)
        contents['random'] = (r + r.t())
        if not big:
            contents['index'] = (torch.minimum(i[:, None], i[None, :]) * n + torch.maximum(i[:, None], i[None, :])).double()
            contents['extreme'] = extreme(n, dt, n)
        for cname, M in contents.items():
            x = M.to(dt)
            if cname == 'extreme':
                pass
            elif cname != 'random' and not torch.equal(x.double(), M):
                res.skip('content not representable in dtype')
                continue
            x = (x + x.t()) / 2 if cname == 'random' else x  # exactly symmetric in dt
            if not same(x, x.t()):
                res.skip('could not build an exactly symmetric matrix')
                continue
            if big:
                layouts = {'contiguous': x.contiguous(), 'transposed': x.t()}
            else:
                wide = torch.zeros(2 * n, 2 * n, dtype=dt)
                wide[::2, ::2] = x
                layouts = {'contiguous': x.contiguous(), 'transposed': x.t(), 'strided': wide[::2, ::2]}
            for lname, v in layouts.items():
                case = dict(n=n, dtype=str(dt), content=cname, layout=lname)
                res.count('roundtrip_checks')
                t = get_triu(v)
                if t.numel() != n * (n + 1) // 2 or t.dim() != 1:
                    return res.violation(f'packed upper triangle has {t.numel()} elements (dim {t.dim()}), expected {n * (n + 1) // 2}', case)
                # uninitialised memory is poisoned while fill_triu runs (what a memory sanitizer does): an element that is never
                # written shows as NaN instead of whatever the allocator left there
                orig_new_empty = torch.Tensor.new_empty

                def poisoned(self, *a, **k):
                    out = orig_new_empty(self, *a, **k)
                    if out.is_floating_point():
                        out.fill_(float('nan'))
                    return out
                torch.Tensor.new_empty = poisoned
                try:
                    y = fill_triu(v.shape, t)
                finally:
                    torch.Tensor.new_empty = orig_new_empty
                if y.dtype != v.dtype or y.shape != v.shape or not same(y, v):
                    bad = (~((y == v) | (torch.isnan(y) & torch.isnan(v)))).nonzero()[:3].tolist() if y.shape == v.shape else 'shape'
                    return res.violation(f'fill_triu(shape, get_triu(x)) != x at {bad}', case)
                if n >= 2:
                    res.nontrivial.add(stable_hash(n, str(dt), cname, lname))
    res.sample(dict(n=n, contents=['min', 'max', 'random', 'index', 'extreme'], layouts=['contiguous', 'transposed', 'strided']))


def make_comm_plan(rng):
    W = rng.choice([2, 3, 4])
    n = rng.choice([1, 2, 3, 5, 8, 13])
    dt = rng.choice(['float32', 'float64', 'bfloat16'])
    cap = rng.choice([1e-9, 1e-5, 25.0])
    nt = rng.randint(1, 4)
    src = rng.randrange(W)
    use_sub = W >= 3 and rng.random() < 0.4
    sub = sorted(rng.sample(range(W), 2)) if use_sub else list(range(W))
    bad_shapes = [rng.choice([(2, 3), (3, 2), (1, 4), (4,), (2, 2, 2), (5, 1)]) for _ in range(2)]
    seeds = [[rng.randrange(2 ** 31) for _ in range(nt)] for _ in range(W)]
    ext_seed = rng.randrange(2 ** 31) if rng.random() < 0.4 else None   # the broadcast matrix sits at the edges of the dtype
    return dict(W=W, n=n, dtype=dt, cap=cap, tensors=nt, src=src, use_sub=use_sub, group=sub, bad_shapes=bad_shapes, seeds=seeds, ext_seed=ext_seed)


def mats(plan, rank):
    import torch
    out = []
    for s in plan['seeds'][rank]:
        g = torch.Generator().manual_seed(s)
        r = torch.randint(-8, 9, (plan['n'], plan['n']), generator=g).double()
        out.append((r + r.t()).to(getattr(torch, plan['dtype'])))
    return out


def bmat(plan, rank):
    import torch
    return extreme(plan['n'], getattr(torch, plan['dtype']), plan['ext_seed']) if plan['ext_seed'] is not None else mats(plan, rank)[0]


def comm_fn(plan, issued):
    """per-rank program; `issued(rank)` = number of backend operations this rank has issued so far."""
    import torch
    import torch.distributed as dist

    sub, nt, dt = plan['group'], plan['tensors'], getattr(torch, plan['dtype'])

    def fn(rank, world):
        from kfac.distributed import NonSquareTensorError, TorchDistributedCommunicator

        grp = dist.new_group(sub) if plan['use_sub'] else None
        out = {}
        if rank not in sub:
            return out
        tdc = TorchDistributedCommunicator(bucket_cap_mb=plan['cap'])
        ms = mats(plan, rank)
        # rejection first: nothing may reach the backend
        before = issued(rank)
        rej = []
        for shp in plan['bad_shapes']:
            t = torch.zeros(*shp, dtype=dt)
            for name, call in (('allreduce', lambda: tdc.allreduce(t, symmetric=True, group=grp)),
                               ('broadcast', lambda: tdc.broadcast(t, src=sub[0], symmetric=True, group=grp)),
                               ('allreduce_bucketed', lambda: tdc.allreduce_bucketed(t, symmetric=True, group=grp))):
                try:
                    call()
                    rej.append((name, tuple(shp), 'accepted'))
                except NonSquareTensorError:
                    rej.append((name, tuple(shp), 'rejected'))
                except Exception as e:  # noqa: BLE001
                    rej.append((name, tuple(shp), type(e).__name__))
        tdc.flush_allreduce_buckets()
        out['rej'] = rej
        out['ops_during_rejection'] = issued(rank) - before
        # the same with a bucket PENDING: a valid tensor is queued first, then invalid ones of the same and of another dtype are
        # offered; they must be refused without anything being sent (the pending bucket included)
        pend = tdc.allreduce_bucketed(ms[0].clone(), symmetric=True, group=grp)
        before2 = issued(rank)
        other_dt = torch.float64 if dt != torch.float64 else torch.float32
        for shp in plan['bad_shapes']:
            for d_ in (dt, other_dt):
                t = torch.zeros(*shp, dtype=d_)
                try:
                    tdc.allreduce_bucketed(t, symmetric=True, group=grp)
                    rej.append(('allreduce_bucketed with a pending bucket', tuple(shp), 'accepted'))
                except NonSquareTensorError:
                    rej.append(('allreduce_bucketed with a pending bucket', tuple(shp), 'rejected'))
                except Exception as e:  # noqa: BLE001
                    rej.append(('allreduce_bucketed with a pending bucket', tuple(shp), type(e).__name__))
        out['ops_during_rejection'] += issued(rank) - before2
        tdc.flush_allreduce_buckets()
        if not isinstance(pend, torch.Tensor):
            pend.wait()
        res_ = {}
        for avg in (False, True):
            sym = [tdc.allreduce(m.clone(), average=avg, symmetric=True, group=grp) for m in ms]
            den = [tdc.allreduce(m.clone(), average=avg, symmetric=False, group=grp) for m in ms]
            bsym = [tdc.allreduce_bucketed(m.clone(), average=avg, symmetric=True, group=grp) for m in ms]
            tdc.flush_allreduce_buckets()
            bden = [tdc.allreduce_bucketed(m.clone(), average=avg, symmetric=False, group=grp) for m in ms]
            tdc.flush_allreduce_buckets()
            res_[avg] = [[f.wait() if not isinstance(f, torch.Tensor) else f for f in fs] for fs in (sym, den, bsym, bden)]
        out['allreduce'] = res_
        root = sub[plan['src'] % len(sub)]
        b0 = bmat(plan, rank)
        bs = tdc.broadcast(b0.clone() if rank == root else torch.zeros_like(b0), src=root, symmetric=True, group=grp)
        bd = tdc.broadcast(b0.clone() if rank == root else torch.zeros_like(b0), src=root, symmetric=False, group=grp)
        out['broadcast'] = (bs.wait() if not isinstance(bs, torch.Tensor) else bs, bd.wait() if not isinstance(bd, torch.Tensor) else bd, root)
        return out
    return fn


def evaluate_comm(plan, results, res, case, where=''):
    import torch
    sub, nt, dt = plan['group'], plan['tensors'], getattr(torch, plan['dtype'])
    for rank in sub:
        o = results[rank]
        res.count('reject_checks', len(o['rej']))
        for name, shp, outcome in o['rej']:
            if outcome != 'rejected':
                return res.violation(where + f'{name}(symmetric=True) on shape {tuple(shp)} was {outcome} instead of raising NonSquareTensorError', case)
        if o['ops_during_rejection'] != 0:
            return res.violation(where + f'{o["ops_during_rejection"]} backend operations were issued while rejecting non-square tensors', case)
        for avg, (sym, den, bsym, bden) in o['allreduce'].items():
            for j in range(nt):
                res.count('comm_equalities', 3)
                for nm, t in (('allreduce symmetric', sym[j]), ('bucketed symmetric', bsym[j]), ('bucketed dense', bden[j])):
                    if t.shape != den[j].shape or t.dtype != den[j].dtype or not torch.equal(t, den[j]):
                        return res.violation(where + f'{nm} (average={avg}) differs from the dense allreduce on rank {rank}, tensor {j}', case)
            # and the dense result is the true sum over the group
            exp = [sum(mats(plan, r)[j].double() for r in sub) for j in range(nt)]
            for j in range(nt):
                e = exp[j] / len(sub) if avg else exp[j]
                if not torch.allclose(den[j].double(), e, rtol=4 * float(torch.finfo(dt).eps), atol=0):
                    return res.violation(where + f'dense allreduce (average={avg}) is not the group sum on rank {rank}', case)
        bs, bd, root = o['broadcast']
        want = bmat(plan, root)
        res.count('comm_equalities', 2)
        if plan['ext_seed'] is not None:
            res.count('extreme_broadcasts')
        if not same(bs, want) or not same(bd, want):
            return res.violation(where + f'symmetric/dense broadcast from {root} did not deliver the root matrix on rank {rank}', case)
    return True


def comm_case(rng, res, idx):
    """symmetric vs dense communication on a simulated world; rejection before any op."""
    from kverif import simdist

    plan_ = make_comm_plan(rng)
    case = dict(idx=idx, **{k: v for k, v in plan_.items() if k != 'seeds'})
    run = simdist.run_world(plan_['W'], comm_fn(plan_, lambda rank: simdist.current().issued_by(rank)), seed=idx, policy=rng.choice(simdist.POLICIES))
    if run.failed():
        return res.violation('symmetric/dense communication scenario failed: ' + run.failure_summary(), case)
    if evaluate_comm(plan_, run.results, res, case) is not True:
        return
    res.count('sim_worlds')
    res.count('sim_events', len(run.trace))
    res.add('schedules', run.schedule_hash())
    if plan_['n'] >= 2:
        res.nontrivial.add(stable_hash('comm', plan_['W'], plan_['n'], plan_['dtype'], plan_['cap'], plan_['use_sub']))
    res.sample(case)


def real_rank(payload, rank, world):
    """one rank of a REAL gloo world: the same per-rank program; backend operations are counted at torch.distributed."""
    import torch.distributed as dist
    plan_ = make_comm_plan(case_rng(payload['seed'], ID, payload['idx'], 'real'))
    n = [0]
    for name in ('all_reduce', 'broadcast', 'all_gather', 'reduce'):
        orig = getattr(dist, name)

        def wrapped(*a, _orig=orig, **kw):
            n[0] += 1
            return _orig(*a, **kw)
        setattr(dist, name, wrapped)
    return comm_fn(plan_, lambda r: n[0])(rank, world)


def real_comm_case(seed, res, idx):
    from kverif import realdist
    plan_ = make_comm_plan(case_rng(seed, ID, idx, 'real'))
    payload = dict(seed=seed, idx=idx, jitter=(0.25 if case_rng(seed, ID, idx, 'jitter').random() < 0.6 else 0), jitter_seed=idx)
    case = dict(real_idx=idx, jitter=payload['jitter'], **{k: v for k, v in plan_.items() if k != 'seeds'})
    out, err = realdist.run('kverif.props.c14', 'real_rank', payload, plan_['W'])
    if err:
        if err.startswith('RANK FAILED') and '/kfac/' in err:
            return res.violation('real gloo world: a rank raised inside kfac: ' + err[-300:], case)
        res.count('real_gloo_unavailable')
        return res.skip('real gloo run unavailable: ' + err[:40])
    res.count('real_gloo_worlds')
    res.count('real_gloo_jitter_yields', sum((o['jitter'] or {}).get('yields', 0) for o in out))
    evaluate_comm(plan_, [o['result'] for o in out], res, case, where='real gloo world: ')


def plan(tier, seed):
    N = tier_value(tier, 256, 1024)
    shards = tier_value(tier, 6, 12)
    specs = [dict(kind='roundtrip', ns=list(range(1, N + 1))[i::shards], budget_s=tier_value(tier, 180, 600)) for i in range(shards)]
    # large factors (thousands of rows; "for all n"): fixed landmarks around powers of two plus seed-dependent sizes
    import random as _r
    rr = _r.Random(f'C14-large-{seed}')
    large = tier_value(tier, [1025, 1100, 2049, 3072], [1025, 1026, 1100, 1537, 2047, 2048, 2049, 2500, 3072, 4095, 4097, 5000, 6145]) + \
        [rr.randint(1025, 4200) for _ in range(tier_value(tier, 2, 12))]
    for j, n in enumerate(large):
        specs[j % shards]['ns'].append(n)
    nc = tier_value(tier, 160, 8000)
    cs = tier_value(tier, 4, 8)
    specs += [dict(kind='comm', first=i * (nc // cs), count=nc // cs, budget_s=tier_value(tier, 40, 300)) for i in range(cs)]
    # the repository's own tests as one more workload: every fill_triu call they make must return the symmetric completion
    specs.append(dict(kind='repo_tests', files=tier_value(tier, ['tests/distributed_test.py', 'tests/layers/layers_test.py'], ['tests']), budget_s=900))
    return specs


def run_shard(spec, res):
    dl = Deadline(spec['budget_s'])
    if spec['kind'] == 'repo_tests':
        from kverif import repotests
        return repotests.run('C14', spec['files'], res)
    if spec['kind'] == 'roundtrip':
        for n in sorted(spec['ns'], reverse=True):
            if dl.over():
                res.inconclusive.append(f'round-trip shard ran out of time before n={n}')
                break
            res.evaluations += 1
            roundtrip(n, res)
    else:
        for i in range(spec['first'], spec['first'] + spec['count']):
            if dl.over():
                break
            res.evaluations += 1
            comm_case(case_rng(spec['seed'], ID, i), res, i)
        for j in range(1 if spec['tier'] == 'quick' else 12):
            if j and dl.over():
                break
            real_comm_case(spec['seed'], res, spec['first'] + j)


def replay(case, res):
    import os
    seed = int(os.environ.get('VERIF_SEED', '0'))
    if 'repo_tests' in case:
        from kverif import repotests
        return repotests.run('C14', case['repo_tests'], res)
    if 'real_idx' in case:
        real_comm_case(seed, res, case['real_idx'])
    elif 'idx' in case:
        comm_case(case_rng(seed, ID, case['idx']), res, case['idx'])
    else:
        roundtrip(case['n'], res)
