"""C15 - layer helpers keep factors, gradients and weights in one consistent layout.

Oracle: autograd's own parameter gradients vs sum_{b,pos} g (x) [patch,1] built
with torch.nn.functional.unfold; get_a_factor / get_g_factor vs the float64
reference moments; set_grad/get_grad identities; advertised shapes.
"""
from __future__ import annotations

import itertools

from kverif.common import Deadline, case_rng, stable_hash, tier_value

ID = 'C15'
LEVEL = 'exploration'
RULE = ('conv geometries (in/out channels 1-5, kernels 1-3x1-3, strides 1-2x1-2, zero padding 0-2x0-2, H,W up to 9 incl. not divisible '
        'by stride, batch 1-4, bias on/off) and linear layers with inputs of rank 2-4, channel-distinguishing data; thorough tier walks the full '
        'kernel x stride x padding grid; non-trivial: conv with kernel area>1 or in_channels>1, or linear with input rank>2 or bias; distinct = geometry hash')
ASSUMPTIONS = ['torch.nn.functional.unfold is the reference for "the convolution\'s own unfolding"',
               'dilation 1 and groups 1 only, as quantified']
REQUIRED = ['conv_checks', 'linear_checks', 'setget_checks']


def conv_case(geo, rng, res):
    import torch
    import torch.nn.functional as F
    from kfac.layers.modules import Conv2dModuleHelper
    from kverif import refmodel as rm

    ci, co, kh, kw, sh, sw, ph, pw, H, W, B, bias = geo
    case = dict(kind='conv', ci=ci, co=co, kernel=(kh, kw), stride=(sh, sw), padding=(ph, pw), H=H, W=W, B=B, bias=bias)
    g = torch.Generator().manual_seed(rng.randrange(2 ** 31))
    pad_arg = (ph, pw)
    if (sh, sw) == (1, 1) and rng.random() < 0.3:
        # torch's string paddings are zero paddings too: 'valid' = none, 'same' = dilation*(k-1) zeros per dimension
        pad_arg = rng.choice(['same', 'valid'])
        case['padding'] = pad_arg
        H, W = max(H, kh), max(W, kw)
    conv = torch.nn.Conv2d(ci, co, (kh, kw), (sh, sw), pad_arg, bias=bias).double()
    with torch.no_grad():
        for p in conv.parameters():
            p.copy_(torch.randn(p.shape, generator=g, dtype=torch.float64))
    if rng.random() < 0.2:
        # channels_last PARAMETERS (model.to(memory_format=torch.channels_last)): autograd then gives weight.grad NHWC strides
        conv = conv.to(memory_format=torch.channels_last)
        case['weights'] = 'channels_last'
        res.count('channels_last_weight_cases')
    x = torch.randn(B, ci, H, W, generator=g, dtype=torch.float64) * torch.arange(1, ci + 1, dtype=torch.float64).view(1, -1, 1, 1)
    x = x + 0.01 * torch.arange(H * W, dtype=torch.float64).view(1, 1, H, W)  # position-distinguishing
    xin = x.clone().requires_grad_(True)
    y = conv(xin)
    go = torch.randn(y.shape, generator=g, dtype=torch.float64)
    y.backward(go)
    h = Conv2dModuleHelper(conv)
    res.count('conv_checks')
    P = rm.conv_patches(x, conv).transpose(1, 2) if isinstance(pad_arg, str) else F.unfold(x, (kh, kw), padding=(ph, pw), stride=(sh, sw))  # B, D, S
    if isinstance(pad_arg, str):
        # the reference patches of a string padding are the harness's own reading of torch's rule: they must reproduce the convolution
        res.count('string_padding_cases')
        yref = torch.einsum('bds,od->bos', P, conv.weight.detach().reshape(co, -1)).reshape(y.shape) + (conv.bias.detach().view(1, -1, 1, 1) if bias else 0)
        if not torch.allclose(yref, y.detach(), rtol=1e-9, atol=1e-9):
            res.inconclusive.append('harness: reference patches of a string padding do not reproduce the convolution')
            return
    gg = go.reshape(B, co, -1)
    exp = torch.einsum('bos,bds->od', gg, P)
    if bias:
        exp = torch.cat([exp, gg.sum((0, 2)).view(-1, 1)], 1)
    got = h.get_grad()
    if got.shape != exp.shape or not torch.allclose(got, exp, rtol=1e-9, atol=1e-9):
        return res.violation(f'get_grad() of Conv2d is not sum_(b,pos) g (x) [patch,1] in unfold column order (max dev {(got - exp).abs().max().item() if got.shape == exp.shape else "shape"})', case)
    # patches agree with unfold: (B, oh, ow, D)
    if hasattr(h, '_extract_patches'):
        pt = h._extract_patches(x.clone())
        oh, ow = y.shape[2], y.shape[3]
        expp = P.transpose(1, 2).reshape(B, oh, ow, -1)
        res.count('patch_checks')
        if pt.shape != expp.shape or not torch.equal(pt, expp):
            return res.violation('_extract_patches disagrees with torch.nn.functional.unfold', case)
    A = h.get_a_factor(x.clone())
    Aexp = rm.moment_conv_in(x, conv, bias)
    G = h.get_g_factor(go.clone())
    Gexp = rm.moment_conv_out(go)
    if tuple(A.shape) != tuple(h.a_factor_shape) or tuple(G.shape) != tuple(h.g_factor_shape):
        return res.violation(f'factor shapes {tuple(A.shape)},{tuple(G.shape)} != advertised {h.a_factor_shape},{h.g_factor_shape}', case)
    if A.shape != Aexp.shape or not torch.allclose(A, Aexp, rtol=1e-9, atol=1e-12):
        return res.violation(f'get_a_factor differs from the patch second moment in gradient-column coordinates (max dev {(A - Aexp).abs().max().item() if A.shape == Aexp.shape else "shape"})', case)
    if not torch.allclose(G, Gexp, rtol=1e-9, atol=1e-12):
        return res.violation(f'get_g_factor differs from the output-gradient second moment (max dev {(G - Gexp).abs().max().item()})', case)
    if tuple(got.shape) != (h.g_factor_shape[0], h.a_factor_shape[0]):
        return res.violation(f'combined gradient shape {tuple(got.shape)} != (G rows, A rows)', case)
    # the factor functions are given the tensors autograd goes on to use (hook arguments): they must read them only, in
    # every memory layout (contiguous, channels_last, single channel - where a reshape is a view of the caller's tensor)
    for lname, conv_ in (('contiguous', lambda t: t.clone()), ('channels_last', lambda t: t.clone().contiguous(memory_format=torch.channels_last))):
        xa, ga = conv_(x), conv_(go)
        xa0, ga0 = xa.clone(), ga.clone()
        res.count('purity_checks')
        A1, G1 = h.get_a_factor(xa), h.get_g_factor(ga)
        A1b, G1b = h.get_a_factor(xa), h.get_g_factor(ga)
        if not (torch.equal(xa, xa0) and torch.equal(ga, ga0)):
            return res.violation(f'get_a_factor/get_g_factor modified the tensor they were given ({lname} layout, out_channels={co})', case)
        if not (torch.allclose(A1, Aexp, rtol=1e-9, atol=1e-12) and torch.allclose(G1, Gexp, rtol=1e-9, atol=1e-12) and torch.equal(A1, A1b) and torch.equal(G1, G1b)):
            return res.violation(f'factors of a {lname} batch differ from the second moments, or a second call on the same tensors gives another result', case)
    # the SAME helper on a later batch of another size (batch and resolution may change from call to call)
    H2, W2, B2 = H + rng.randint(0, 3), W + rng.randint(0, 3), rng.randint(1, 4)
    x2 = torch.randn(B2, ci, H2, W2, generator=g, dtype=torch.float64)
    go2 = torch.randn(conv(x2).shape, generator=g, dtype=torch.float64)
    res.count('second_call_checks')
    A2, G2 = h.get_a_factor(x2.clone()), h.get_g_factor(go2.clone())
    if A2.shape != A.shape or not torch.allclose(A2, rm.moment_conv_in(x2, conv, bias), rtol=1e-9, atol=1e-12) or not torch.allclose(G2, rm.moment_conv_out(go2), rtol=1e-9, atol=1e-12):
        return res.violation(f'second call of the same helper on a batch of shape {tuple(x2.shape)} (first was {tuple(x.shape)}): factors differ from the second moments of that batch', case)
    if not setget(h, conv, g, res, case):
        return
    if kh * kw > 1 or ci > 1:
        res.nontrivial.add(stable_hash(geo[:10], bias))
    res.sample(case)


def setget(h, mod, g, res, case):
    import torch

    res.count('setget_checks')
    before_w = mod.weight.grad.clone()
    before_b = None if mod.bias is None else mod.bias.grad.clone()
    h.set_grad(h.get_grad())
    if not torch.equal(mod.weight.grad, before_w) or (before_b is not None and not torch.equal(mod.bias.grad, before_b)):
        res.violation('set_grad(get_grad()) changed .grad', case)
        return False
    if mod.weight.grad.shape != mod.weight.shape or (mod.bias is not None and mod.bias.grad.shape != mod.bias.shape):
        res.violation('set_grad left a gradient with a shape different from its parameter', case)
        return False
    M = torch.randn(h.get_grad().shape, generator=g, dtype=torch.float64)
    h.set_grad(M)
    if not torch.equal(h.get_grad(), M):
        res.violation('get_grad() after set_grad(M) is not M', case)
        return False
    # weight part / bias part land where the statement says (last column = bias)
    wexp = M[:, :-1] if mod.bias is not None else M
    if not torch.equal(mod.weight.grad.reshape(mod.weight.shape[0], -1), wexp) or (mod.bias is not None and not torch.equal(mod.bias.grad, M[:, -1])):
        res.violation('set_grad(M) did not put the last column into bias.grad and the rest into weight.grad', case)
        return False
    if not mod.weight.grad.is_contiguous():
        res.violation('set_grad left a non-contiguous weight gradient', case)
        return False
    # the gradients change IN PLACE between two reads (zero_grad(set_to_none=False), accumulation into existing .grad, an
    # optimizer/clipper scaling them): get_grad() must read what is stored now, not what it saw before
    res.count('inplace_update_checks')
    w0, b0 = wexp.clone(), M[:, -1].clone()   # (the stored gradients may be views of M: keep independent copies)
    with torch.no_grad():
        mod.weight.grad.mul_(-2.0)
        if mod.bias is not None:
            mod.bias.grad.add_(1.0)
    exp = torch.cat([-2.0 * w0, (b0 + 1.0).view(-1, 1)], 1) if mod.bias is not None else -2.0 * w0
    if not torch.equal(h.get_grad(), exp):
        res.violation('get_grad() after the stored gradients were modified in place does not read the current gradients (it returned a stale combined matrix)', case)
        return False
    with torch.no_grad():
        mod.weight.grad.zero_()
        if mod.bias is not None:
            mod.bias.grad.zero_()
    if float(h.get_grad().abs().max()) != 0.0:
        res.violation('get_grad() after an in-place zero_() of the gradients is not zero', case)
        return False
    return True


def linear_case(rng, res):
    import torch
    from kfac.layers.modules import LinearModuleHelper
    from kverif import refmodel as rm

    fi, fo = rng.randint(1, 6), rng.randint(1, 6)
    lead = [rng.randint(1, 4) for _ in range(rng.choice([1, 1, 2, 3, 0]))]   # 0 leading dimensions: an unbatched, rank-1 input
    if lead and rng.random() < 0.06:
        lead[0] = rng.choice([129, 200, 257, 300])
    bias = rng.random() < 0.5
    case = dict(kind='linear', fin=fi, fout=fo, lead=lead, bias=bias)
    g = torch.Generator().manual_seed(rng.randrange(2 ** 31))
    lin = torch.nn.Linear(fi, fo, bias=bias).double()
    with torch.no_grad():
        for p in lin.parameters():
            p.copy_(torch.randn(p.shape, generator=g, dtype=torch.float64))
    x = torch.randn(*lead, fi, generator=g, dtype=torch.float64) * torch.arange(1, fi + 1, dtype=torch.float64)
    if len(lead) >= 2 and rng.random() < 0.4:
        # a transposed activation (sequence-first <-> batch-first): the helper is handed a NON-contiguous tensor
        x = x.transpose(0, 1)
        lead = list(x.shape[:-1])
        case['lead'], case['layout'] = lead, 'transposed'
        res.count('non_contiguous_linear_inputs')
    y = lin(x.clone().requires_grad_(True))
    go = torch.randn(y.shape, generator=g, dtype=torch.float64)
    y.backward(go)
    h = LinearModuleHelper(lin)
    res.count('linear_checks')
    xr = x.reshape(-1, fi)
    gr = go.reshape(-1, fo)
    if bias:
        xr = torch.cat([xr, torch.ones(xr.shape[0], 1, dtype=torch.float64)], 1)
    exp = gr.t() @ xr
    got = h.get_grad()
    if got.shape != exp.shape or not torch.allclose(got, exp, rtol=1e-9, atol=1e-9):
        return res.violation('get_grad() of Linear is not sum g (x) [a,1]', case)
    A = h.get_a_factor(x.clone())
    G = h.get_g_factor(go.clone())
    if tuple(A.shape) != tuple(h.a_factor_shape) or tuple(G.shape) != tuple(h.g_factor_shape):
        return res.violation(f'factor shapes {tuple(A.shape)},{tuple(G.shape)} != advertised {h.a_factor_shape},{h.g_factor_shape}', case)
    if not torch.allclose(A, rm.moment_linear_in(x, bias), rtol=1e-9, atol=1e-12) or not torch.allclose(G, rm.moment_linear_out(go), rtol=1e-9, atol=1e-12):
        return res.violation('linear factors differ from the bias-augmented input / output-gradient second moments', case)
    lead2 = [rng.randint(1, 4) for _ in range(rng.choice([1, 2, 3]))]
    x2 = torch.randn(*lead2, fi, generator=g, dtype=torch.float64)
    go2 = torch.randn(*lead2, fo, generator=g, dtype=torch.float64)
    res.count('second_call_checks')
    if not torch.allclose(h.get_a_factor(x2.clone()), rm.moment_linear_in(x2, bias), rtol=1e-9, atol=1e-12) or \
            not torch.allclose(h.get_g_factor(go2.clone()), rm.moment_linear_out(go2), rtol=1e-9, atol=1e-12):
        return res.violation(f'second call of the same helper with leading dimensions {lead2} (first {lead}): factors differ from the second moments of that batch', case)
    if not setget(h, lin, g, res, case):
        return
    if len(lead) > 1 or bias:
        res.nontrivial.add(stable_hash(case))
    res.sample(case)


def random_geo(rng):
    ci, co = rng.randint(1, 5), rng.randint(1, 5)
    kh, kw = rng.randint(1, 3), rng.randint(1, 3)
    sh, sw = rng.randint(1, 2), rng.randint(1, 2)
    ph, pw = rng.randint(0, 2), rng.randint(0, 2)
    H = rng.randint(max(kh - 2 * ph, 1), 9)
    W = rng.randint(max(kw - 2 * pw, 1), 9)
    batch = rng.choice([129, 130, 200, 257, 300, 513]) if rng.random() < 0.06 else rng.randint(1, 4)   # 'all batch sizes': a few large, odd ones
    return (ci, co, kh, kw, sh, sw, ph, pw, H, W, batch, rng.random() < 0.5)


def grid():
    for kh, kw, sh, sw, ph, pw in itertools.product((1, 2, 3), (1, 2, 3), (1, 2), (1, 2), (0, 1, 2), (0, 1, 2)):
        yield kh, kw, sh, sw, ph, pw


def plan(tier, seed):
    if tier == 'quick':
        return [dict(kind='random', first=i * 400, count=400, budget_s=40) for i in range(8)]
    specs = [dict(kind='random', first=i * 20000, count=20000, budget_s=400) for i in range(8)]
    specs += [dict(kind='grid', part=i, parts=6, budget_s=240) for i in range(6)]
    return specs


def run_shard(spec, res):
    from kverif.kharness import call_case
    dl = Deadline(spec['budget_s'])
    if spec['kind'] == 'random':
        for i in range(spec['first'], spec['first'] + spec['count']):
            if dl.over():
                break
            rng = case_rng(spec['seed'], ID, i)
            res.evaluations += 1
            # an exception raised inside the helpers on a supported configuration is a violation, not a harness problem
            if i % 4 == 3:
                call_case(res, linear_case, rng, res, case=dict(kind='linear', idx=i))
            else:
                geo = random_geo(rng)
                call_case(res, conv_case, geo, rng, res, case=dict(kind='conv', idx=i, geo=list(geo)))
    else:
        for gi, (kh, kw, sh, sw, ph, pw) in enumerate(grid()):
            if gi % spec['parts'] != spec['part']:
                continue
            rng = case_rng(spec['seed'], ID, gi, 'grid')
            for rep in range(6):
                if dl.over():
                    break
                ci, co = rng.randint(1, 5), rng.randint(1, 5)
                H = rng.randint(max(kh - 2 * ph, 1), 9)
                W = rng.randint(max(kw - 2 * pw, 1), 9)
                res.evaluations += 1
                geo = (ci, co, kh, kw, sh, sw, ph, pw, H, W, rng.randint(1, 4), rep % 2 == 0)
                call_case(res, conv_case, geo, rng, res, case=dict(kind='conv', grid=gi, rep=rep, geo=list(geo)))
        res.count('grid_points')


def replay(case, res):
    import random
    from kverif.kharness import call_case
    rng = random.Random(0)
    if case.get('kind') == 'conv' and 'geo' in case:
        for s in range(5):
            call_case(res, conv_case, tuple(case['geo']), random.Random(s), res, case=case)
    elif case.get('kind') == 'conv':
        for s in range(5):
            conv_case((case['ci'], case['co'], *case['kernel'], *case['stride'], *case['padding'], case['H'], case['W'], case['B'], case['bias']), random.Random(s), res)
    else:
        for s in range(50):
            call_case(res, linear_case, random.Random(s), res, case=case)
