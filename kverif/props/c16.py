"""C16 - exactly the eligible layers are registered, once each.

Oracle: an independent recursive walk over `_modules` (first-visit naming, id
de-duplication) vs what register_modules / KFACPreconditioner registered; hook
counts on every module before/after; parameters untouched.
"""
from __future__ import annotations

import warnings

from kverif.common import Deadline, case_rng, stable_hash, tier_value

ID = 'C16'
LEVEL = 'exploration'
RULE = ('generated module trees (nesting <=4, Sequential/ModuleList/ModuleDict/custom containers, shared instances, subclasses of Linear/Conv2d, '
        'a Linear subclass with children, MultiheadAttention, unsupported leaves, frozen and partially frozen modules) x generated skip-pattern lists '
        '(literals, anchors, ., classes, digits, class names); GPT-NeoX variant with Column/RowParallelLinear class names; '
        'non-trivial: >=1 registered and >=1 eligible-type leaf excluded (skip/frozen/shared duplicate/non-leaf); distinct = hash(tree repr, patterns)')
ASSUMPTIONS = ['a module is a leaf iff it has no child modules',
               'hook bookkeeping is read from torch\'s _forward_pre_hooks / _backward_hooks dictionaries']
REQUIRED = ['tree_checks', 'hook_checks', 'preconditioner_checks', 'second_preconditioner_checks', 'neox_checks']


def hook_counts(model):
    return {id(m): (len(m._forward_pre_hooks), len(m._backward_hooks), len(m._forward_hooks)) for m in model.modules()}


def check_tree(rng, res, idx):
    import torch
    from kfac.distributed import TorchDistributedCommunicator
    from kfac.layers.eigen import KFACEigenLayer
    from kfac.layers.inverse import KFACInverseLayer
    from kfac.layers.register import register_modules
    from kfac.preconditioner import KFACPreconditioner
    from kverif import gen

    model = gen.random_tree(rng)
    if rng.random() < 0.05:
        model = torch.nn.Linear(2, 2)  # the root itself is a leaf
    pats = gen.random_patterns(rng, model)
    case = dict(idx=idx, tree=repr(model)[:1500], patterns=pats)
    exp = gen.expected_registration(model, pats)
    exp_names = [n for n, _ in exp]
    exp_ids = {id(m) for _, m in exp}
    params_before = {n: (p.detach().clone(), p.requires_grad) for n, p in model.named_parameters()}
    res.count('tree_checks')
    lt = KFACEigenLayer if rng.random() < 0.5 else KFACInverseLayer
    got = register_modules(model, lt, skip_layers=list(pats), tdc=TorchDistributedCommunicator())
    got_names = [n for n, _ in got.values()]
    if sorted(got_names) != sorted(exp_names) or {id(m) for m in got} != exp_ids:
        return res.violation(f'register_modules registered {sorted(got_names)}; the independent walk expects {sorted(exp_names)}', case)
    if len(set(got_names)) != len(got_names):
        return res.violation(f'duplicate names registered: {got_names}', case)
    for m, (n, layer) in got.items():
        if dict(model.named_modules()).get(n) is not m:
            return res.violation(f'layer registered under {n!r} which does not name that module', case)
        if layer.module.module is not m:
            return res.violation(f'KFAC layer {n!r} wraps a different module', case)
    # through the public preconditioner: names + hooks + parameters; sometimes a second preconditioner is then built on the
    # same tree (re-created after a change of settings, possibly with other skip patterns): the same must hold for it
    rounds = [(pats, exp_names, exp_ids)]
    if rng.random() < 0.4:
        pats2 = pats if rng.random() < 0.5 else gen.random_patterns(rng, model)
        exp2 = gen.expected_registration(model, pats2)
        rounds.append((pats2, [n for n, _ in exp2], {id(m) for _, m in exp2}))
        case['second_patterns'] = pats2
    keep = []
    for ri, (pats_i, names_i, ids_i) in enumerate(rounds):
        before = hook_counts(model)
        res.count('preconditioner_checks')
        if ri:
            res.count('second_preconditioner_checks')
        with warnings.catch_warnings():
            warnings.simplefilter('ignore')
            p = KFACPreconditioner(model, skip_layers=list(pats_i), compute_method=rng.choice(['eigen', 'inverse']), compute_eigenvalue_outer_product=False)
        keep.append(p)
        which = 'KFACPreconditioner' if ri == 0 else 'a second KFACPreconditioner on the same tree'
        keys = list(p.state_dict()['layers'].keys())
        if sorted(keys) != sorted(names_i):
            return res.violation(f'{which} holds layers {sorted(keys)}; expected {sorted(names_i)}', case)
        after = hook_counts(model)
        for m in model.modules():
            res.count('hook_checks')
            b, a = before[id(m)], after[id(m)]
            want = (b[0] + 1, b[1] + 1, b[2]) if id(m) in ids_i else b
            if a != want:
                nm = [n for n, mm in model.named_modules() if mm is m][0]
                return res.violation(f'{which}: module {nm!r} ({type(m).__name__}) has hooks (fwd_pre,bwd,fwd)={a}, expected {want}', case)
    for n, q in model.named_parameters():
        v, rg = params_before[n]
        if q.requires_grad != rg or not torch.equal(q.detach(), v):
            return res.violation(f'registration changed parameter {n}', case)
    eligible_type = [m for m in model.modules() if isinstance(m, (torch.nn.Linear, torch.nn.Conv2d))]
    if exp and len({id(m) for m in eligible_type}) > len(exp):
        res.nontrivial.add(stable_hash(repr(model), pats))
    res.sample(dict(idx=idx, patterns=pats, expected=exp_names[:8], modules=len(list(model.modules()))))


def check_neox(rng, res, idx):
    """register_modules of the GPT-NeoX package dispatches on the class name."""
    import torch
    from kfac.distributed import TorchDistributedCommunicator
    from kfac.gpt_neox.preconditioner import register_modules as neox_register
    from kverif import gen

    class ColumnParallelLinear(torch.nn.Linear):
        pass

    class RowParallelLinear(torch.nn.Linear):
        pass

    class ParallelLinearOther(torch.nn.Linear):
        pass

    mods = {}
    pool = []
    for i in range(rng.randint(1, 6)):
        k = rng.choice(['col', 'row', 'lin', 'other', 'frozen', 'relu', 'shared', 'nest'])
        nm = rng.choice(['dense_h_to_4h', 'dense_4h_to_h', 'query_key_value', 'dense', 'final_linear', 'x', 'QKV', 'Dense_Out']) + str(i)
        if k == 'col':
            m = ColumnParallelLinear(2, 2, bias=rng.random() < 0.5)
            pool.append(m)
        elif k == 'row':
            m = RowParallelLinear(2, 2, bias=rng.random() < 0.5)
            pool.append(m)
        elif k == 'lin':
            m = torch.nn.Linear(2, 2)
        elif k == 'other':
            m = ParallelLinearOther(2, 2)
        elif k == 'frozen':
            m = ColumnParallelLinear(2, 2)
            m.weight.requires_grad_(False)
        elif k == 'relu':
            m = torch.nn.ReLU()
        elif k == 'shared' and pool:
            m = rng.choice(pool)
        else:
            m = gen.Block({'attention': gen.Block({'dense': RowParallelLinear(2, 2), 'query_key_value': ColumnParallelLinear(2, 2)})})
        mods[nm] = m
    model = gen.Block(mods)
    pats = [rng.choice(['final_linear', 'attention', 'dense$', r'\d$', 'columnparallel', 'RowParallel', 'query', 'x', '^dense', 'qkv', 'QKV', 'dense_out', 'Dense'])
            for _ in range(rng.choice([0, 1, 1, 2]))]
    import re
    seen = set()
    must, may = [], []
    for n, m in model.named_modules():
        if id(m) in seen or list(m.children()):
            continue
        seen.add(id(m))
        cname = type(m).__name__
        if cname.lower() not in ('columnparallellinear', 'rowparallellinear'):
            continue
        if not all(p.requires_grad for p in m.parameters()):
            continue
        item = (n, 'output' if cname.lower().startswith('column') else 'input')
        if any(re.search(p, n) for p in pats) or any(re.search(p, cname) for p in pats):
            continue  # the statement: name or class name matched -> must not be registered
        if any(re.search(p, cname.lower()) for p in pats):
            may.append(item)  # documented case-insensitivity of the GPT-NeoX variant: either outcome accepted
            continue
        must.append(item)
    res.count('neox_checks')
    got = neox_register(model, model_parallel_group=None, skip_layers=pats, tdc=TorchDistributedCommunicator())
    gotl = sorted((n, l.parallelism) for n, l in got.values())
    case = dict(idx=idx, kind='neox', tree=repr(model)[:1200], patterns=pats)
    extra = [g for g in gotl if g not in must and g not in may]
    missing = [g for g in must if g not in gotl]
    if extra or missing:
        mech = None
        if extra and not missing and all(any(re.search(p, {'input': 'RowParallelLinear', 'output': 'ColumnParallelLinear'}[k]) for p in pats) for _, k in extra):
            mech = 'neox-skip-pattern-not-applied-to-class-name'
        return res.violation(f'GPT-NeoX register_modules registered {gotl}; layers that must be registered {sorted(must)}, optional {sorted(may)} '
                             f'(unexpected {extra}, missing {missing})', case, mechanism=mech)
    exp = must
    if exp:
        res.nontrivial.add(stable_hash('neox', repr(model), pats))


def plan(tier, seed):
    n = tier_value(tier, 1200, 200000)
    shards = tier_value(tier, 6, 14)
    per = n // shards
    return [dict(first=i * per, count=per, budget_s=tier_value(tier, 40, 300)) for i in range(shards)]


def run_shard(spec, res):
    dl = Deadline(spec['budget_s'])
    for i in range(spec['first'], spec['first'] + spec['count']):
        if dl.over():
            break
        res.evaluations += 1
        from kverif.kharness import call_case
        call_case(res, check_tree, case_rng(spec['seed'], ID, i), res, i, case=dict(idx=i))
        if i % 4 == 0:
            call_case(res, check_neox, case_rng(spec['seed'], ID, i, 'neox'), res, i, case=dict(idx=i, kind='neox'))


def replay(case, res):
    import os
    seed = int(os.environ.get('VERIF_SEED', '0'))
    if case.get('kind') == 'neox':
        check_neox(case_rng(seed, ID, case['idx'], 'neox'), res, case['idx'])
    else:
        check_tree(case_rng(seed, ID, case['idx']), res, case['idx'])
