"""C17 - KAISAAssignment.greedy_assignment is complete, group-confined, balanced, greedy and pure.

Oracle: post-conditions + replay with backtracking over ties, evaluated on the
return value of the real static method (contract style; counters prove it ran).
"""
from __future__ import annotations

import copy
import itertools

from kverif.common import Deadline, case_rng, stable_hash, tier_value

ID = 'C17'
LEVEL = 'exploration'
EXHAUSTIVE = {'quick': False, 'thorough': True}
EXHAUSTIVE_SCOPE = 'thorough tier: every (<=3 layers x <=2 factors, costs in {0,1,2,3}, every set partition of <=4 workers, colocate on/off) case is enumerated; the quick tier strides through that space (1/7 per seed); random large cases are sampled in both'
RULE = ('exhaustive small domain (<=3 layers x <=2 factors, costs in {0,1,2,3}, every partition of <=4 workers into disjoint groups, colocate on/off) '
        'plus random cases (<=40 layers, <=64 workers, int/float/huge costs, unequal groups); non-trivial: >=2 layers and >=2 workers; '
        'distinct = hash(work, groups, colocate); the whole enumeration is repeated under PYTHONHASHSEED 0/1/4242 and digests must agree')
ASSUMPTIONS = ['tie-breaks are not fixed by the statement: the replay accepts any order consistent with decreasing cost',
               'replay search capped at 20000 nodes per case; beyond it the ordering clause is counted inconclusive for that case']
REQUIRED = ['postcondition_checks', 'replay_accepts']
EPS = 1e-9


class Budget:
    def __init__(self, n):
        self.n = n


def replay_search(work, groups, coloc, out, budget):
    tot = {l: sum(work[l].values()) for l in work}
    order = sorted(work, key=lambda l: -tot[l])  # stable: insertion order among ties (tried first)
    tiegroups = [list(g) for _, g in itertools.groupby(order, key=lambda l: tot[l])]
    scale = max([abs(v) for v in tot.values()] + [1.0])
    # integer costs below 2**53 add up exactly in any order: "least loaded" is then an exact comparison. Fractional costs may
    # be summed in another order by the code under test: allow rounding (1e-12 relative), not a thousandth of a millionth
    all_int = all(float(c).is_integer() for fs in work.values() for c in fs.values()) and sum(abs(v) for v in tot.values()) < 2 ** 52
    eps = 0.0 if all_int else 1e-12 * scale * max(1, len(work))

    def place_layer(l, loads):
        if not work[l]:
            yield dict(loads)   # a layer without factors places nothing and constrains nothing
            return
        ws = set(out[l].values())
        gl = [sum(loads[w] for w in g) for g in groups]
        gi = [i for i, g in enumerate(groups) if ws <= set(g)]
        if not gi or gl[gi[0]] > min(gl) + eps:
            return
        g = groups[gi[0]]
        if coloc:
            if len(ws) != 1:
                return
            w = next(iter(ws))
            if loads[w] > min(loads[x] for x in g) + eps:
                return
            nl = dict(loads)
            nl[w] += tot[l]
            yield nl
            return
        fs = sorted(work[l].items(), key=lambda x: (x[1], x[0]), reverse=True)
        fgroups = [list(gg) for _, gg in itertools.groupby(fs, key=lambda x: x[1])]
        for perm in itertools.product(*[itertools.permutations(fg) for fg in fgroups]):
            budget.n -= 1
            if budget.n < 0:
                return
            nl = dict(loads)
            ok = True
            for f, c in itertools.chain(*perm):
                w = out[l][f]
                if nl[w] > min(nl[x] for x in g) + eps:
                    ok = False
                    break
                nl[w] += c
            if ok:
                yield nl

    def rec(gi_, remaining, loads):
        budget.n -= 1
        if budget.n < 0:
            return False
        if not remaining:
            if gi_ + 1 == len(tiegroups):
                return True
            return rec(gi_ + 1, list(tiegroups[gi_ + 1]), loads)
        for l in remaining:
            rest = [x for x in remaining if x != l]
            for nl in place_layer(l, loads):
                if rec(gi_, rest, nl):
                    return True
                if budget.n < 0:
                    return False
        return False

    if not tiegroups:
        return True
    return rec(0, list(tiegroups[0]), {w: 0.0 for g in groups for w in g})


def check_case(work, groups, world, coloc, res, tag):
    from kfac.assignment import KAISAAssignment

    case = dict(work=work, groups=groups, world=world, colocate=coloc, tag=tag)
    w0, g0 = copy.deepcopy(work), copy.deepcopy(groups)
    out = KAISAAssignment.greedy_assignment(work, groups, world, coloc)
    out2 = KAISAAssignment.greedy_assignment(copy.deepcopy(w0), copy.deepcopy(g0), world, coloc)
    res.count('postcondition_checks')
    if work != w0 or groups != g0 or list(work) != list(w0):
        return res.violation('greedy_assignment mutated its arguments', case)
    if out != out2:
        return res.violation(f'two calls with equal arguments returned {out} and {out2}', case)
    return post(work, groups, world, coloc, out, res, case)


def post(work, groups, world, coloc, out, res, case):
    """post-conditions of one greedy_assignment result (also used on the calls made by the repository's own tests)."""
    if set(out) != set(work) or any(set(out[l]) != set(work[l]) for l in work):
        return res.violation(f'result keys {out} do not mirror the work dictionary', case)
    valid = {w for g in groups for w in g}
    for l in work:
        ws = set(out[l].values())
        if not ws <= valid:
            return res.violation(f'layer {l} assigned to {ws}, not ranks of any worker group', case, out=out)
        if work[l] and not any(ws <= set(g) for g in groups):
            return res.violation(f'factors of layer {l} are spread over several worker groups: {out[l]}', case, out=out)
        if coloc and len(ws) > 1:
            return res.violation(f'colocate_factors=True but layer {l} is on workers {ws}', case, out=out)
    # balance consequences
    loads = {w: 0.0 for w in valid}
    biggest_in_group = {i: 0.0 for i in range(len(groups))}
    gidx = {w: i for i, g in enumerate(groups) for w in g}
    for l in work:
        if not work[l]:
            continue
        i = gidx[next(iter(out[l].values()))]
        if coloc:
            loads[next(iter(out[l].values()))] += sum(work[l].values())
            biggest_in_group[i] = max(biggest_in_group[i], sum(work[l].values()))
        else:
            for f, c in work[l].items():
                loads[out[l][f]] += c
                biggest_in_group[i] = max(biggest_in_group[i], c)
    scale = max([1.0] + [abs(v) for v in loads.values()])
    for i, g in enumerate(groups):
        ls = [loads[w] for w in g]
        if max(ls) - min(ls) > biggest_in_group[i] + EPS * scale:
            return res.violation(f'worker loads inside group {g} differ by {max(ls) - min(ls)} > largest item {biggest_in_group[i]}', case, out=out)
    gl = [sum(loads[w] for w in g) for g in groups]
    biggest_layer = max([sum(work[l].values()) for l in work] + [0.0])
    if max(gl) - min(gl) > biggest_layer + EPS * scale:
        return res.violation(f'group loads {gl} differ by more than the largest layer {biggest_layer}', case, out=out)
    b = Budget(20000)
    ok = replay_search(work, groups, coloc, out, b)
    if b.n < 0:
        res.count('replay_capped')
    elif not ok:
        return res.violation('no order consistent with decreasing cost makes every placement a least-loaded group / least-loaded worker choice', case, out=out)
    else:
        res.count('replay_accepts')
    if len(work) >= 2 and len(valid) >= 2:
        res.nontrivial.add(stable_hash(work, groups, coloc))
    if case.get('tag') is not None:
        res.add('digest_parts', stable_hash(case['tag'], out))
    res.sample(dict(case, result=out))
    return out


def partitions(items):
    """All set partitions of a list."""
    if not items:
        yield []
        return
    first, rest = items[0], items[1:]
    for p in partitions(rest):
        for i in range(len(p)):
            yield p[:i] + [[first] + p[i]] + p[i + 1:]
        yield [[first]] + p


def exhaustive_cases():
    costs = [0, 1, 2, 3]
    for world in (1, 2, 3, 4):
        for groups in partitions(list(range(world))):
            groups = [sorted(g) for g in groups]
            for nl in (1, 2, 3):
                for nf in (1, 2):
                    for cs in itertools.product(costs, repeat=nl * nf):
                        work = {f'l{i}': {['A', 'G'][j]: cs[i * nf + j] for j in range(nf)} for i in range(nl)}
                        for coloc in (True, False):
                            yield work, groups, world, coloc


def random_case(rng):
    world = rng.choice([1, 2, 3, 4, 6, 8, 12, 16, 32, 64])
    style = rng.random()
    ranks = list(range(world))
    if style < 0.6:
        k = rng.choice([d for d in range(1, world + 1) if world % d == 0])
        p = world // k
        groups = [list(range(i, world, p)) for i in range(p)]
        rng.shuffle(groups)
    else:
        rng.shuffle(ranks)
        groups = []
        i = 0
        while i < len(ranks):
            s = rng.randint(1, max(1, world // 2))
            groups.append(ranks[i:i + s])
            i += s
        if rng.random() < 0.3 and len(groups) > 1:
            groups.pop()  # not covering the world
    nl = rng.choice([1, 2, 3, 5, 8, 13, 40])
    fam = rng.choice(['small', 'ties', 'zeros', 'huge', 'float', 'geom', 'cubes', 'cubes', 'near'])
    near_base = rng.choice([50257, 8193, 4097]) ** 3

    def cost(i):
        if fam == 'near':
            # a few very expensive items that differ by a hair, then cheap ones: which group / worker is least loaded is decided
            # far below 1e-9 of the load
            return near_base + rng.randint(1, 5000) if i < 4 else rng.choice([32, 16, 8]) ** rng.choice([2, 3])
        if fam == 'small':
            return rng.choice([0, 1, 2, 3, 5, 8])
        if fam == 'ties':
            return 1
        if fam == 'zeros':
            return rng.choice([0, 0, 0, 1])
        if fam == 'huge':
            return rng.randint(1, 10 ** 9)
        if fam == 'float':
            return rng.random() * 100
        if fam == 'cubes':
            # the preconditioner's own heuristics: n**3 (COMPUTE) or n**2 (MEMORY) of layer widths from 3 to 8192
            n_ = rng.choice([8192, 4096, 4096, 1024, 64, 16, 16, 10, 10, 3])
            return n_ ** rng.choice([3, 3, 2])
        return 2 ** (i % 20)
    names = [rng.choice(['A', 'G', 'B', 'a0', 'z']) for _ in range(3)]
    work = {}
    for i in range(nl):
        nf = rng.choice([1, 2, 2, 2, 3])
        if rng.random() < 0.03:
            nf = 0   # a layer without factors ("any number of layers and factors")
        fs = (['A', 'G', 'X'] if rng.random() < 0.8 else ['G', 'A', 'X'])[:nf]
        work[f'layer{i}' if rng.random() < 0.9 else f'm.{i}'] = {f: cost(i) for f in fs}
    return work, groups, world, rng.random() < 0.5


def class_case(rng, res, idx):
    """The rule as users meet it: through the KAISAAssignment class (constructor -> greedy_assignment -> inv_worker), with the
    costs the user gave (integers, fractions below one, mixed magnitudes). The inverse workers reported by the object must be
    explainable by the greedy rule on THOSE costs and the object's own worker groups."""
    from kfac.assignment import KAISAAssignment

    W = rng.choice([2, 3, 4, 6, 8, 12])
    k = rng.choice([d for d in range(1, W + 1) if W % d == 0])
    coloc = rng.random() < 0.5
    kind = rng.choice(['fraction', 'fraction', 'mixed', 'integer'])
    nl = rng.randint(2, 9)

    def cost():
        if kind == 'integer':
            return rng.choice([1, 2, 3, 5, 8, 13, 100])
        if kind == 'fraction':
            return round(rng.uniform(0.05, 0.99), 3)
        return rng.choice([round(rng.uniform(0.1, 9.9), 2), rng.choice([1, 4, 27]), round(rng.uniform(0.01, 0.5), 3)])
    work = {f'layer{i}': {f: cost() for f in (('A', 'G') if rng.random() < 0.85 else ('A',))} for i in range(nl)}
    case = dict(class_idx=idx, W=W, k=k, colocate=coloc, cost_kind=kind, work=work)
    a = KAISAAssignment(copy.deepcopy(work), local_rank=rng.randrange(W), world_size=W, grad_worker_fraction=k / W, group_func=lambda ranks: tuple(sorted(ranks)),
                        colocate_factors=coloc)
    out = {l: {f: a.inv_worker(l, f) for f in work[l]} for l in work}
    groups = sorted(sorted(g) for g in KAISAAssignment.partition_grad_workers(W, k))
    res.count('class_level_checks')
    b = Budget(20000)
    ok = replay_search(work, groups, coloc, out, b)
    if b.n < 0:
        return res.count('replay_capped')
    if not ok:
        return res.violation(f'KAISAAssignment(world={W}, grad workers={k}, colocate={coloc}) reports inverse workers {out} for costs {work}: no order consistent with '
                             f'decreasing cost makes every placement a least-loaded group / least-loaded worker choice on the worker groups {groups}', case)
    res.count('replay_accepts')
    if kind != 'integer':
        res.nontrivial.add(stable_hash('class', W, k, coloc, work))


def plan(tier, seed):
    specs = []
    ex = list(range(8))
    for hs in (0, 1, 4242):
        for part in ex:
            specs.append(dict(kind='exhaustive', part=part, parts=len(ex), hashseed=hs, budget_s=tier_value(tier, 180, 600),
                              stride=tier_value(tier, 7, 1)))
        for part in range(tier_value(tier, 1, 4)):
            specs.append(dict(kind='random', part=part, hashseed=hs, count=tier_value(tier, 300, 40000), budget_s=tier_value(tier, 40, 300)))
    # the repository's own tests as one more workload: every greedy_assignment call they make is checked by the same post-conditions
    specs.append(dict(kind='repo_tests', part=0, files=tier_value(tier, ['tests/assignment_test.py', 'tests/preconditioner_test.py'], ['tests']), budget_s=900))
    return specs


def run_shard(spec, res):
    dl = Deadline(spec['budget_s'])
    tag0 = f'{spec["kind"]}-{spec["part"]}'
    if spec['kind'] == 'repo_tests':
        from kverif import repotests
        return repotests.run('C17', spec['files'], res)
    if spec['kind'] == 'exhaustive':
        for i, (work, groups, world, coloc) in enumerate(exhaustive_cases()):
            if i % spec['parts'] != spec['part'] or (i // spec['parts']) % spec['stride'] != spec['seed'] % spec['stride']:
                continue
            if dl.over():
                res.inconclusive.append('exhaustive shard hit its time budget')
                break
            res.evaluations += 1
            check_case(work, groups, world, coloc, res, (tag0, i))
        res.count('exhaustive_cases', res.evaluations)
    else:
        for i in range(spec['count']):
            if dl.over():
                break
            rng = case_rng(spec['seed'], ID, spec['part'] * 10 ** 6 + i)
            work, groups, world, coloc = random_case(rng)
            res.evaluations += 1
            check_case(work, groups, world, coloc, res, (tag0, i))
            if i % 3 == 0:
                class_case(case_rng(spec['seed'], ID, spec['part'] * 10 ** 6 + i, 'class'), res, spec['part'] * 10 ** 6 + i)
    # one digest per (shard kind/part) and hash seed, compared across hash seeds by postcheck
    dig = stable_hash(sorted(res.sets.pop('digest_parts', [])))
    res.add(f'digest:{tag0}:n{res.evaluations}', dig)


def postcheck(counters, maxima, sets):
    out = []
    by_tag = {}
    for k, v in sets.items():
        if k.startswith('digest:'):
            tag = k.split(':')[1]
            by_tag.setdefault(tag, set()).update((k, d) for d in v)
    for tag, items in by_tag.items():
        digs = {d for _, d in items}
        counts = {k for k, _ in items}
        if len(counts) == 1 and len(digs) != 1:
            out.append(dict(what=f'greedy_assignment results of shard {tag} differ between PYTHONHASHSEED values 0/1/4242 (digests {sorted(digs)})', mechanism=None, case=dict(tag=tag)))
    return out


def coverage_extra(counters, maxima, sets):
    return {'hash_seeds_compared': 3}


def replay(case, res):
    if 'class_idx' in case:
        import os
        return class_case(case_rng(int(os.environ.get('VERIF_SEED', '0')), ID, case['class_idx'], 'class'), res, case['class_idx'])
    check_case(case['work'], case['groups'], case['world'], case['colocate'], res, 'replay')
