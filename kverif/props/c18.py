"""C18 - GPT-NeoX checkpoints gather and restore every layer factor.

Oracle (fault enumeration over the checkpoint position of short sharded runs): the state returned on every rank holds
every layer's factors bitwise equal to those held by the layer's inverse worker (or one file per layer with that
content); saving and loading keep all collectives matched (simdist monitors); after loading into fresh preconditioners
the factor-gathering ranks hold the saved factors and second-order data; the resumed gradients equal the uninterrupted
sharded run under the rule of C09.
"""
from __future__ import annotations

import copy
import random

from kverif.common import Deadline, case_rng, stable_hash, tier_value

ID = 'C18'
LEVEL = 'fault_enumeration'
RULE = ('topologies (pp,dp,mp) with world <= 8 (thorough 16), 1-4 layers per stage, in-memory and directory checkpoints, compute_inverses on/off, weights evolving by SGD; '
        'for a generated run of T steps EVERY boundary 1..T is used as checkpoint position (a second run per position); non-trivial: world>1; distinct = (topology, blocks, position, variant)')
ASSUMPTIONS = ['save and load are separated by a harness join of all ranks (a resume is a new job)', 'Megatron/DeepSpeed stand-ins as in C11',
               'the checkpoint directory is a fresh temporary directory outside /repo and /verif, removed afterwards']
REQUIRED = ['state_checks', 'restore_checks', 'resume_equal_checks', 'positions_checked', 'older_state_loaded_between_two_loads_of_the_checkpoint']


def run_case(rng, res, idx, tier):
    import torch
    from deepspeed.runtime.pipe.topology import PipeModelDataParallelTopology
    from kverif import kharness as kh, neox, simdist

    spec = neox.gen_spec(rng, max_world=tier_value(tier, 8, 16), checkpoint=False, deep=0.2)
    spec['sgd_lr'] = 0.05
    T = rng.randint(2, 4)
    spec['history'] = [('train',)] * T
    spec['factor_dir'] = False
    pp, dp, mp = spec['pp'], spec['dp'], spec['mp']
    W = pp * dp * mp
    topo = PipeModelDataParallelTopology(num_pp=pp, num_mp=mp, num_dp=dp)
    seed = rng.randrange(10 ** 6)
    base = neox.run(spec, seed=seed, policy='round_robin')
    case0 = dict(idx=idx, spec=spec)
    if base.inconclusive:
        res.inconclusive.append('simulator watchdog fired')
        return
    if base.failed():
        return res.violation('uninterrupted sharded run failed: ' + base.failure_summary(), case0, mechanism=neox.classify_failure(base, spec))
    F, I = spec['F'], spec['I']
    for c in range(1, T + 1):
        sp = copy.deepcopy(spec)
        sp['factor_dir'] = rng.random() < 0.4
        sp['load_same_object'] = rng.random() < 0.5
        sp['load_old_between'] = random.Random(stable_hash('load-old-between', idx, c)).random() < 0.4
        compute = not (I == 1 and rng.random() < 0.3) and not (c % I == 0 and rng.random() < 0.2)
        tail = [('train',)] * (T - c) + [('train',)]
        # periodic saving: the same object may be asked for its state several times before the checkpoint that is restored
        head = []
        for t in range(c):
            head.append(('train',))
            # (more often right after a factor-update boundary: a later save inside the same factor interval must still write
            # the factors that are current then)
            if t < c - 1 and rng.random() < (0.75 if (F > 1 and (t + 1) % F == 0) else 0.3):
                head.append(('sd_only',))
        sp['history'] = head + [('ckpt', compute)] + tail + ([('sd_only',)] if rng.random() < 0.3 else [])
        policy = simdist.POLICIES[(idx + c) % len(simdist.POLICIES)]
        case = dict(idx=idx, spec=sp, position=c, policy=policy)
        run = neox.run(sp, seed=seed + c, policy=policy, stress=((idx + c) % 6 == 0))
        if run.inconclusive:
            res.inconclusive.append('simulator watchdog fired')
            return
        res.count('positions_checked')
        res.count('events', len(run.trace))
        if run.failed():
            return res.violation(f'checkpoint at boundary {c} on pp={pp} dp={dp} mp={mp} (directory={sp["factor_dir"]}): save/load/continue failed: ' + run.failure_summary(), case,
                                 mechanism=neox.classify_failure(run, sp))
        # ---- (1) saved state on every rank
        recs = run.results
        nsd = len(recs[0]['sd'])
        for k in range(nsd):
            held = {}
            for r in range(W):
                for n, (A, G) in recs[r]['sd'][k]['held'].items():
                    held[n] = (A, G)
            all_names = [n for r in range(W) for n in recs[r]['names']]
            if set(held) != set(all_names):
                res.inconclusive.append('harness: inverse workers do not cover all layers')
                return
            for r in range(W):
                e = recs[r]['sd'][k]
                res.count('state_checks')
                if e['steps'] != e['state'].get('steps'):
                    return res.violation(f'rank {r}: state["steps"]={e["state"].get("steps")} but the preconditioner is at step {e["steps"]}', case)
                if sp['factor_dir']:
                    if 'layers' in e['state']:
                        return res.violation(f'rank {r}: directory checkpointing but the state dict still carries layers', case)
                    if r == 0:
                        if sorted(e['files']) != sorted(held):
                            return res.violation(f'factor checkpoint directory holds files {e["files"]}, expected one per layer {sorted(held)}', case)
                        for n, (A, G) in held.items():
                            fc = e['file_contents'][n]
                            if not (torch.equal(fc['A'], A) and torch.equal(fc['G'], G)):
                                return res.violation(f'file of layer {n} does not contain the factors held by its inverse worker', case)
                    continue
                layers = e['state'].get('layers')
                if layers is None or set(layers) != set(held):
                    return res.violation(f'rank {r}: saved state has layers {sorted(layers) if layers else layers}, expected every layer {sorted(held)}', case)
                for n, (A, G) in held.items():
                    if not (torch.equal(layers[n]['A'], A) and torch.equal(layers[n]['G'], G)):
                        return res.violation(f'rank {r}: factors of layer {n} in the saved state differ from those held by its inverse worker', case)
        # ---- (3) restoration on the gathering ranks
        e0 = [next(e for e in recs[r]['sd'] if 'after_load' in e) for r in range(W)]
        held = {}
        for r in range(W):
            held.update(e0[r]['held'])
        for r in range(W):
            ok_, missing_ = e0[r].get('loaded_state_intact', (True, []))
            res.count('loaded_state_intact_checks')
            if not ok_:
                return res.violation(f'rank {r}: load_state_dict modified the state it was given (' + (f'keys removed: {missing_}' if missing_ else 'factor values changed' + (' after an older state was loaded in between' if e0[r].get('reloaded_after_older') else '')) + '); an in-memory checkpoint could not be loaded a second time', case)
            if e0[r].get('reloaded_after_older'):
                res.count('older_state_loaded_between_two_loads_of_the_checkpoint')
            for e_ in recs[r]['sd']:
                if e_ is not e0[r] and e_.get('loaded_state_intact_at_end') is False:
                    return res.violation(f'rank {r}: an older in-memory state that was loaded (and replaced by a later load) no longer holds what was saved', case)
            if e0[r].get('loaded_state_intact_at_end') is False:
                return res.violation(f'rank {r}: the in-memory state that was loaded at boundary {c} no longer holds the saved factors after training went on (the restored factors alias it)', case)
            after = e0[r].get('after_load', {})
            if e0[r].get('steps_after_load') != c:
                return res.violation(f'rank {r}: steps after load = {e0[r].get("steps_after_load")}, checkpoint was taken at {c}', case)
            for n, st in after.items():
                asg = recs[r]['assignment'][n]
                res.count('restore_checks')
                if asg['factor_worker'] == r:
                    if st['A'] is None or st['A'].dtype != held[n][0].dtype or st['G'].dtype != held[n][1].dtype or \
                            not (torch.equal(st['A'], held[n][0]) and torch.equal(st['G'], held[n][1])):
                        return res.violation(f'rank {r} gathers the factors of layer {n} but did not get the saved factors back after load', case)
                if asg['inv'] == r and compute and not st['has_second_order']:
                    return res.violation(f'rank {r} is the inverse worker of layer {n}; compute_inverses=True but no second-order data after load', case)
        # ---- (4) resume equivalence (rule of C09)
        lf = max([t for t in range(c) if t % F == 0], default=-1)
        lr_ = max([t for t in range(c) if t % I == 0], default=-1)
        must_equal = (c % I == 0) or (lf <= lr_)
        if must_equal:
            for t in range(c, T):
                for r in range(W):
                    for li, ((w, b), (bw, bb)) in enumerate(zip(recs[r]['grads'][t], base.results[r]['grads'][t])):
                        res.count('resume_equal_checks')
                        ew = kh.rel_err(w, bw)
                        eb = 0.0 if b is None else kh.rel_err(b, bb)
                        if not (ew <= 1e-9 and eb <= 1e-9):
                            mech = 'neox-mp-resume-replicated-factors-restart-from-identity' if mp > 1 else None
                            return res.violation(f'checkpoint at boundary {c} (pp={pp} dp={dp} mp={mp}, directory={sp["factor_dir"]}): rank {r} layer {li} gradient at step {t} differs from the '
                                                 f'uninterrupted sharded run (weight rel {ew:.3e}, bias rel {eb:.3e})', case, mechanism=mech)
        if W > 1:
            res.nontrivial.add(stable_hash(pp, dp, mp, spec['blocks'], c, sp['factor_dir'], compute))
        res.add('topologies', f'{pp}x{dp}x{mp}')
        res.add('schedules', run.schedule_hash())
    res.sample(dict(idx=idx, topology=(pp, dp, mp), blocks=spec['blocks'], T=T, F=F, I=I))


def plan(tier, seed):
    n = tier_value(tier, 72, 1600)
    shards = tier_value(tier, 12, 14)
    per = n // shards
    return [dict(first=i * per, count=per, budget_s=tier_value(tier, 50, 560)) for i in range(shards)]


def run_shard(spec, res):
    dl = Deadline(spec['budget_s'])
    for i in range(spec['first'], spec['first'] + spec['count']):
        if dl.over():
            break
        res.evaluations += 1
        run_case(case_rng(spec['seed'], ID, i), res, i, spec['tier'])


def replay(case, res):
    import os
    for tier in ('quick', 'thorough'):
        run_case(case_rng(int(os.environ.get('VERIF_SEED', '0')), ID, case['idx']), res, case['idx'], tier)
