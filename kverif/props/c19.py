"""C19 - LambdaParamScheduler applies multiplicative factors deterministically;
exp_decay_factor_averaging == min(1 - 1/max(k,1), cap).

Oracle: executable model (dict of current values) stepped next to the real
scheduler on the real preconditioner; exact float equality after every call.
"""
from __future__ import annotations

import random

import math

from kverif.common import Deadline, case_rng, stable_hash, tier_value

ID = 'C19'
LEVEL = 'exploration'
RULE = ('all 64 subsets of the six schedulable parameters (exhaustive, case index mod 64) x random factor functions with distinct '
        'step dependence x call sequences mixing explicit/implicit steps and real step() calls; plus exp_decay caps x k grid. '
        'non-trivial: >=1 scheduled parameter and >=2 scheduler steps at distinct step values (or an exp-decay grid); distinct = hash(subset, sequence shape)')
ASSUMPTIONS = ['hyper-parameters are read back through the public properties of the preconditioner',
               'interval factors are generated so that truncated intervals stay >= 1 before a real step() is taken']
REQUIRED = ['value_checks', 'ctor_reject_checks', 'ctor_reject_set_checks', 'expdecay_checks']

PARAMS = ['factor_update_steps', 'inv_update_steps', 'damping', 'factor_decay', 'kl_clip', 'lr']


def make_factor(rng, idx, is_interval, calls, pname):
    a = rng.choice([0.5, 0.9, 1.0, 1.1, 1.5, 2.0, 3.0])
    b = rng.choice([0.0, 0.01, 0.1, 0.5, 1.0])
    m = rng.choice([2, 3, 5, 7])
    if is_interval:
        if rng.random() < 0.3:
            # decimal factors: interval * factor often lands a hair below an integer in binary (100 * 0.29 = 28.999...96):
            # the documented rule is the truncation of exactly that float product
            table = [rng.choice([0.29, 0.57, 1.15, 0.1, 0.7, 1.1, 0.3, 0.9, 1.01, 0.99, 0.07]) for _ in range(m)]
        else:
            table = [rng.choice([1, 1, 1.5, 2, 2.5, 3, 0.5, 0.75]) for _ in range(m)]

        def f(k):
            calls.append((pname, k))
            return table[k % m]
    else:
        def f(k):
            calls.append((pname, k))
            return a + b / (1 + (k % m) + idx)
    kind = random.Random(stable_hash('schedule-object', idx, pname)).random()
    if kind < 0.2:
        # "any callable": a schedule object that is falsy (a table with no per-step overrides has len() == 0, a flag-like
        # object defines __bool__) is still a schedule that was passed, and must be applied / refused like any other
        class _Schedule:
            def __init__(self, fn):
                self.fn = fn

            def __call__(self, k):
                return self.fn(k)

        if kind < 0.1:
            _Schedule.__len__ = lambda self: 0
        else:
            _Schedule.__bool__ = lambda self: False
        return _Schedule(f)
    return f


def run_sched_case(rng, res, idx, maxlen):
    import torch
    from kfac.base_preconditioner import BaseKFACPreconditioner
    from kfac.distributed import TorchDistributedCommunicator
    from kfac.preconditioner import KFACPreconditioner
    from kfac.scheduler import LambdaParamScheduler

    subset = [p for b, p in enumerate(PARAMS) if (idx >> b) & 1]
    init = dict(factor_update_steps=rng.choice([1, 2, 3, 10, 100, 200]), inv_update_steps=rng.choice([1, 2, 4, 10, 100, 1000]),
                damping=rng.choice([0.001, 0.003, 0.1, 1]), factor_decay=rng.choice([0.95, 0.5, 1.0, 1]),
                kl_clip=rng.choice([0.001, 1.0, 1, 2]), lr=rng.choice([0.1, 0.0, 1e-3, 1, 2]))   # (Python ints are valid floats: lr=1)
    use_real = rng.random() < 0.5
    import warnings
    with warnings.catch_warnings():
        warnings.simplefilter('ignore')
        if use_real:
            model = torch.nn.Linear(3, 2).double()
            p = KFACPreconditioner(model, **init)
        else:
            model = None
            p = BaseKFACPreconditioner({}, assignment=None, tdc=TorchDistributedCommunicator(), **init)
    calls: list = []
    fns = {nm: make_factor(rng, i, nm in PARAMS[:2], calls, nm) for i, nm in enumerate(subset)}
    sched = LambdaParamScheduler(p, **{nm + '_lambda': f for nm, f in fns.items()})
    vals = dict(init)
    desc = []
    ks = set()
    gen = torch.Generator().manual_seed(idx)
    for opi in range(rng.randint(1, maxlen)):
        op = rng.choices(['sched', 'sched_k', 'step'], [4, 3, 3])[0]
        if op == 'step':
            if vals['factor_update_steps'] < 1 or vals['inv_update_steps'] < 1 or not (0 < vals['factor_decay'] <= 1):
                continue
            before = p.steps
            if use_real:
                model.zero_grad()
                model(torch.randn(4, 3, generator=gen, dtype=torch.float64)).pow(2).mean().backward()
            p.step()
            desc.append('step')
            if p.steps != before + 1:
                res.violation(f'step count went {before} -> {p.steps}', dict(idx=idx, ops=desc))
                return
            continue
        k = None if op == 'sched' else rng.choice([0, 1, 2, 5, 17, 100, rng.randint(0, 1000)])
        calls.clear()
        keff = p.steps if k is None else k
        if k is None:
            sched.step()
        else:
            sched.step(k) if rng.random() < 0.5 else sched.step(step=k)
        ks.add(keff)
        desc.append(('sched', k))
        for nm in subset:
            shadow: list = []
            f = fns[nm]
            # the model evaluates the same function at the same step (calls are logged; remove ours)
            n0 = len(calls)
            fac = f(keff)
            del calls[n0:]
            vals[nm] = int(vals[nm] * fac) if nm in PARAMS[:2] else vals[nm] * fac
        # every scheduled lambda must have been called exactly once with keff
        got_calls = sorted(calls)
        exp_calls = sorted((nm, keff) for nm in subset)
        res.count('value_checks')
        if got_calls != exp_calls:
            res.violation(f'scheduler.step({k}) at preconditioner.steps={p.steps} evaluated lambdas {got_calls}, expected {exp_calls}', dict(idx=idx, subset=subset, ops=desc))
            return
        got = {nm: getattr(p, nm) for nm in PARAMS}
        if got != vals or any(type(got[nm]) is not type(vals[nm]) for nm in PARAMS):
            res.violation(f'after scheduler.step({k}) (steps={p.steps}) hyper-parameters are {got}, the model says {vals}', dict(idx=idx, subset=subset, init=init, ops=desc))
            return
    if subset and len(ks) >= 2:
        res.nontrivial.add(stable_hash(idx % 64, [d if isinstance(d, str) else 'sched' + str(d[1] is None) for d in desc]))
    res.add('subsets', str(idx % 64))
    res.sample(dict(subset=subset, init=init, ops=desc[:10]))

    # construction must refuse a parameter that is already callable, and only then
    import functools

    class _CallableObj:
        def __init__(self, v):
            self.v = v

        def __call__(self, s):
            return self.v

        def method(self, s):
            return self.v

    def _plain(s, v=1):
        return v
    for nm in PARAMS:
        cfg = dict(init)
        v_ = 1 if nm in PARAMS[:2] else 0.5
        # "already a function": any callable - lambda, partial, callable instance, bound method
        cfg[nm] = rng.choice([(lambda s: v_), functools.partial(_plain, v=v_), _CallableObj(v_), _CallableObj(v_).method])
        with warnings.catch_warnings():
            warnings.simplefilter('ignore')
            q = BaseKFACPreconditioner({}, assignment=None, tdc=TorchDistributedCommunicator(), **cfg)
        for lam in PARAMS:
            res.count('ctor_reject_checks')
            try:
                LambdaParamScheduler(q, **{lam + '_lambda': lambda s: 1.0})
                raised = False
            except ValueError:
                raised = True
            if raised != (lam == nm):
                res.violation(f'LambdaParamScheduler with {lam}_lambda on a preconditioner whose {nm} is callable: raised={raised}', dict(idx=idx, callable_param=nm, lam=lam))
                return
    # several callables and several lambdas at once: refused exactly when the two sets intersect
    for _ in range(6):
        cset = [nm for nm in PARAMS if rng.random() < 0.35]
        lset = [nm for nm in PARAMS if rng.random() < 0.45]
        cfg = dict(init)
        for nm in cset:
            v_ = 1 if nm in PARAMS[:2] else 0.5
            cfg[nm] = rng.choice([(lambda s, v_=v_: v_), functools.partial(_plain, v=v_), _CallableObj(v_), _CallableObj(v_).method])
        with warnings.catch_warnings():
            warnings.simplefilter('ignore')
            q = BaseKFACPreconditioner({}, assignment=None, tdc=TorchDistributedCommunicator(), **cfg)
        res.count('ctor_reject_set_checks')
        try:
            class _Empty:   # a falsy schedule object (see make_factor)
                def __call__(self, s):
                    return 1.0

                def __len__(self):
                    return 0
            LambdaParamScheduler(q, **{lam + '_lambda': (_Empty() if rng.random() < 0.3 else (lambda s: 1.0)) for lam in lset})
            raised = False
        except ValueError:
            raised = True
        if raised != bool(set(cset) & set(lset)):
            res.violation(f'LambdaParamScheduler with lambdas for {lset} on a preconditioner whose {cset} are callables: raised={raised}', dict(idx=idx, callable_params=cset, lams=lset))
            return
        res.add('ctor_sets', str((sorted(cset), sorted(lset))))


def run_expdecay_case(rng, res, idx, kmax, cap=None):
    from kfac.hyperparams import exp_decay_factor_averaging

    if cap is None:
        cap = math.exp(rng.uniform(math.log(1e-6), math.log(2.0))) if idx % 5 else rng.choice([0.95, 1.0, 0.5, 2.0, 1e-9])
    f = exp_decay_factor_averaging(cap)
    prev = None
    for k in list(range(0, kmax)) + [10 ** 4, 10 ** 6, 10 ** 9 + rng.randint(0, 1000)]:
        got = f(k)
        exp = min(1 - 1 / max(k, 1), cap)
        res.count('expdecay_checks')
        if got != exp or not (0 <= got <= cap) or (prev is not None and got < prev):
            res.violation(f'exp_decay_factor_averaging({cap})({k}) = {got}; expected {exp}, previous {prev}', dict(idx=idx, cap=cap, k=k))
            return
        prev = got
    for badcap in (0, -1e-9, -1.0):
        try:
            exp_decay_factor_averaging(badcap)
            res.violation(f'exp_decay_factor_averaging({badcap}) accepted a non-positive cap', dict(cap=badcap))
            return
        except ValueError:
            pass
    for badk in (-1, -100):
        try:
            f(badk)
            res.violation(f'exp_decay schedule accepted negative step {badk}', dict(cap=cap, k=badk))
            return
        except ValueError:
            pass
    if exp_decay_factor_averaging()(10 ** 6) != 0.95:
        res.violation('default cap is not 0.95', dict())
    res.nontrivial.add('expdecay-' + stable_hash(round(math.log10(cap), 1)))


def plan(tier, seed):
    n = tier_value(tier, 640, 64 * 2000)
    shards = tier_value(tier, 4, 14)
    per = n // shards
    return [dict(first=i * per, count=per, budget_s=tier_value(tier, 25, 150)) for i in range(shards)]


def run_shard(spec, res):
    dl = Deadline(spec['budget_s'])
    maxlen = 30 if spec['tier'] == 'quick' else 60
    for i in range(spec['first'], spec['first'] + spec['count']):
        if dl.over():
            break
        res.evaluations += 1
        run_sched_case(case_rng(spec['seed'], ID, i), res, i, maxlen)
        if i % 8 == 0:
            run_expdecay_case(case_rng(spec['seed'], ID, i, 'exp'), res, i, 300 if spec['tier'] == 'quick' else 2000)


def replay(case, res):
    import os
    seed = int(os.environ.get('VERIF_SEED', '0'))
    if 'cap' in case:
        run_expdecay_case(case_rng(seed, ID, 0, 'exp'), res, 0, 2000, cap=float(case['cap']))
    elif 'idx' in case:
        for ml in (30, 60):
            run_sched_case(case_rng(seed, ID, case['idx']), res, case['idx'], ml)
