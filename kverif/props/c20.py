"""C20 - tracing is transparent and its statistics are exact.

Oracle: kfac.tracing's clock is replaced by a scripted clock with integer
ticks, so every duration is known exactly; a reference dict name -> [samples]
is maintained from an event log (ticks, body enter/exit) and compared with
get_trace() after every operation.
"""
from __future__ import annotations

import types

from kverif.common import Deadline, case_rng, stable_hash, tier_value

ID = 'C20'
LEVEL = 'exploration'
RULE = ('random histories over {call traced fn (returns/raises, nested, shared names, sync on/off), '
        'get_trace(average,max_history), clear_trace} under a scripted integer clock; a case is non-trivial when '
        'some name holds >=2 samples and a query truncates (max_history < samples) or a call raised; distinct = hash of the op sequence')
ASSUMPTIONS = ['kfac.tracing reads the clock only through its module attribute `time`',
               'max_history <= 0 is outside the documented domain and is not generated',
               'sync=True is exercised with torch.distributed.barrier replaced by a counting stub (single process) and, on every 10th case, on 2-3 simulated ranks (simdist) where the barriers are real collectives']
REQUIRED = ['query_checks', 'call_checks', 'clears_inside_a_traced_call', 'sync_worlds']


class Clock:
    def __init__(self, rng, log):
        self.t = 0
        self.rng = rng
        self.log = log

    def time(self):
        self.t += self.rng.choice([0, 1, 1, 2, 3, 7, 100])
        self.log.append(('tick', self.t))
        return float(self.t)


class Boom(Exception):
    pass


def run_case(rng, res, case_id):
    import kfac.tracing as tracing
    import torch

    log: list = []
    clock = Clock(rng, log)
    fake_time = types.SimpleNamespace(time=clock.time)
    real_time = tracing.time
    real_barrier = torch.distributed.barrier
    barriers = [0]

    def fake_barrier(*a, **k):
        barriers[0] += 1

    tracing.time = fake_time
    torch.distributed.barrier = fake_barrier
    tracing.clear_trace()
    ref: dict[str, list[float]] = {}
    ops_desc: list = []
    raised = truncated = False
    try:
        nfun = rng.randint(1, 6)
        names = [rng.choice(['f', 'g', 'h', 'step', 'f']) + str(rng.randint(0, 2)) for _ in range(nfun)]
        funcs = []
        uid = [0]

        def make(i, name, sync):
            def body(*args, **kwargs):
                uid[0] += 1
                my = uid[0]
                log.append(('enter', name, my))
                mode = kwargs.pop('_mode', 'ret')
                depth = kwargs.pop('_depth', 0)
                clear_at = kwargs.pop('_clear', None)
                if clear_at == 'before':
                    # a log-and-reset callback inside a traced function: this call is still in flight and completes afterwards
                    log.append(('clear',))
                    tracing.clear_trace()
                if depth > 0 and funcs:
                    j = kwargs.pop('_callee', 0) % len(funcs)
                    try:
                        funcs[j](_depth=depth - 1, _mode=kwargs.pop('_inner_mode', 'ret'))
                    except Boom:
                        pass
                if clear_at == 'after':
                    log.append(('clear',))
                    tracing.clear_trace()
                if mode == 'raise':
                    log.append(('exit_raise', name, my))
                    raise Boom(my)
                out = kwargs.get('_ret', (args, my))
                log.append(('exit', name, my))
                return out

            body.__name__ = name
            return tracing.trace(sync=sync)(body)

        for i, nm in enumerate(names):
            funcs.append(make(i, nm, rng.random() < 0.25))

        nops = rng.randint(1, tier_len(rng))
        for _ in range(nops):
            kind = rng.choices(['call', 'query', 'clear', 'log'], [6, 3, 0.5, 1])[0]
            if kind == 'log':
                # the logging form of a query: it reports, it must not change what later queries report
                longest = max([len(v) for v in ref.values()], default=0)
                mh_ = rng.choice([None] + list(range(1, longest + 3)))
                tracing.log_trace(average=rng.random() < 0.5, max_history=mh_, loglevel=5)
                ops_desc.append(('log', mh_))
                res.count('log_trace_calls')
                continue
            if kind == 'call':
                f = rng.randrange(nfun)
                mode = 'raise' if rng.random() < 0.15 else 'ret'
                depth = rng.choice([0, 0, 0, 1, 2])
                retobj = object() if rng.random() < 0.5 else [rng.random()]
                start = len(log)
                got = exc = None
                kw = dict(_mode=mode, _depth=depth, _callee=rng.randrange(8),
                          _inner_mode='raise' if rng.random() < 0.2 else 'ret', _ret=retobj)
                if rng.random() < 0.1:
                    kw['_clear'] = rng.choice(['before', 'after'])
                    res.count('clears_inside_a_traced_call')
                if rng.random() < 0.25:
                    # "any arguments": keyword names that a wrapper might use itself must pass through untouched
                    for nm_ in rng.sample(['sync', 'func', 't', 'out', 'args', 'kwargs', 'self', 'name', 'fname', 'times'], rng.randint(1, 3)):
                        kw[nm_] = rng.choice([True, False, None, 1.5, 'x'])
                try:
                    got = funcs[f](1, 'a', **kw)
                except Boom as e:
                    exc = e
                except Exception as e:  # noqa: BLE001  the wrapped function only ever raises Boom
                    res.violation(f'calling the traced function with keyword arguments {sorted(k for k in kw if not k.startswith("_"))} raised {type(e).__name__}: {e} '
                                  '(the undecorated function accepts them and does not raise this)', dict(case=case_id, ops=ops_desc))
                    return
                ops_desc.append(('call', names[f], mode, depth))
                res.count('call_checks')
                if mode == 'raise':
                    raised = True
                    if exc is None:
                        res.violation('traced function swallowed the exception raised by the wrapped function', dict(case=case_id, ops=ops_desc))
                        return
                else:
                    if exc is not None or got is not retobj:
                        res.violation(f'traced function did not return the wrapped function\'s object (got {got!r}, exc {exc!r})', dict(case=case_id, ops=ops_desc))
                        return
                # update the reference from the event log
                seg = log[start:]
                open_ = {}
                last_tick = None
                pending_end = []
                for ev in seg:
                    if ev[0] == 'tick':
                        last_tick = ev[1]
                        # the first tick after an exit closes the innermost finished call
                        if pending_end:
                            nm, st = pending_end.pop()
                            ref.setdefault(nm, []).append(float(last_tick - st))
                    elif ev[0] == 'clear':
                        ref.clear()     # samples of calls completed so far go; calls still in flight complete (and are sampled) later
                    elif ev[0] == 'enter':
                        open_[ev[2]] = last_tick
                    elif ev[0] == 'exit':
                        pending_end.append((ev[1], open_.pop(ev[2])))
                    elif ev[0] == 'exit_raise':
                        open_.pop(ev[2])
                if pending_end:
                    res.violation('a completed traced call was not followed by a clock read (no sample can have been taken)', dict(case=case_id, ops=ops_desc))
                    return
            elif kind == 'query':
                average = rng.random() < 0.5
                longest = max([len(v) for v in ref.values()], default=0)
                mh = rng.choice([None] + list(range(1, longest + 3)))
                got = tracing.get_trace(average=average, max_history=mh)
                exp = {}
                for nm, ts in ref.items():
                    w = ts if mh is None else ts[-mh:]
                    if mh is not None and len(ts) > mh:
                        truncated = True
                    exp[nm] = sum(w) / len(w) if average else sum(w)
                ops_desc.append(('query', average, mh))
                res.count('query_checks')
                if got != exp:
                    res.violation(f'get_trace(average={average}, max_history={mh}) = {got} but the scripted clock implies {exp}', dict(case=case_id, ops=ops_desc, ref=ref))
                    return
            else:
                tracing.clear_trace()
                ref.clear()
                ops_desc.append(('clear',))
                got = tracing.get_trace()
                res.count('clear_checks')
                if got != {}:
                    res.violation(f'clear_trace() left {got}', dict(case=case_id, ops=ops_desc))
                    return
        # final full comparison of every sample list via sum with growing windows
        for nm, ts in ref.items():
            for mh in range(1, len(ts) + 1):
                got = tracing.get_trace(average=False, max_history=mh).get(nm)
                res.count('query_checks')
                if got != sum(ts[-mh:]):
                    res.violation(f'window sum over last {mh} samples of {nm!r} = {got}, expected {sum(ts[-mh:])}', dict(case=case_id, ops=ops_desc, ref=ref))
                    return
        if set(tracing.get_trace()) != set(ref):
            res.violation(f'names recorded {sorted(tracing.get_trace())} != expected {sorted(ref)}', dict(case=case_id, ops=ops_desc))
            return
    finally:
        tracing.time = real_time
        torch.distributed.barrier = real_barrier
        tracing.clear_trace()
    multi = any(len(v) >= 2 for v in ref.values())
    if (multi and truncated) or raised:
        res.nontrivial.add(stable_hash(ops_desc))
    res.sample(dict(case=case_id, names=names, ops=ops_desc[:12]))
    res.count('samples_recorded', sum(len(v) for v in ref.values()))
    res.count('barrier_calls', barriers[0])


def run_sync_case(rng, res, idx):
    """sync=True on 2-3 simulated ranks: two barriers per call, all matched, values and samples still exact."""
    import kfac.tracing as tracing
    from kverif import simdist

    W = rng.choice([2, 3])
    ncalls = rng.randint(1, 6)
    plan_ = [(rng.choice(['a', 'b']), rng.random() < 0.2) for _ in range(ncalls)]   # (function, raises?)
    ticks = {r: [0] for r in range(W)}
    incs = [[rng.choice([1, 2, 5]) for _ in range(4 * ncalls + 4)] for _ in range(W)]
    logs = {r: [] for r in range(W)}

    class T:
        @staticmethod
        def time():
            r = simdist.my_rank()
            ticks[r][0] += incs[r][len(logs[r]) % len(incs[r])]
            logs[r].append(ticks[r][0])
            return float(ticks[r][0])

    real_time = tracing.time
    tracing.time = T
    tracing.clear_trace()
    case = dict(idx=idx, kind='sync', W=W, plan=plan_)
    try:
        def fn(rank, world):
            out = []
            fs = {}
            for nm in ('a', 'b'):
                def body(x, boom, nm=nm):
                    if boom:
                        raise Boom(nm)
                    return x
                body.__name__ = f'{nm}_r{rank}'
                fs[nm] = tracing.trace(sync=True)(body)
            for nm, boom in plan_:
                tok = object()
                try:
                    got = fs[nm](tok, boom)
                    out.append(('ret', got is tok))
                except Boom:
                    out.append(('raised', True))
            return out
        run = simdist.run_world(W, fn, seed=idx, policy=rng.choice(simdist.POLICIES))
        got_trace = tracing.get_trace(average=False)
    finally:
        tracing.time = real_time
        tracing.clear_trace()
    res.count('sync_worlds')
    if run.failed():
        # a raising traced function skips its trailing barrier on that rank only if the others do the same: all ranks share the plan
        return res.violation('traced(sync=True) functions on simulated ranks: ' + run.failure_summary(), case)
    for r in range(W):
        nb = sum(1 for e in run.trace if e['rank'] == r and e['kind'] == 'barrier')
        exp_b = sum(1 if boom else 2 for _, boom in plan_)
        if nb != exp_b:
            return res.violation(f'rank {r}: {nb} barriers for {ncalls} synchronised calls ({sum(b for _, b in plan_)} raising), expected {exp_b}', case)
        for (nm, boom), (kind, ok) in zip(plan_, run.results[r]):
            if (kind == 'raised') != boom or not ok:
                return res.violation(f'rank {r}: synchronised traced call did not return the identical object / raise the identical exception', case)
        # exact samples: the j-th completed call consumed ticks (2j, 2j+1) of this rank's clock ... raising calls consume one tick
        li = 0
        exp = {}
        for nm, boom in plan_:
            if boom:
                li += 1
                continue
            exp.setdefault(f'{nm}_r{r}', []).append(float(logs[r][li + 1] - logs[r][li]))
            li += 2
        for k, v in exp.items():
            if got_trace.get(k) != sum(v):
                return res.violation(f'rank {r}: sum of samples of {k} = {got_trace.get(k)}, scripted clock implies {sum(v)}', case)
        if any(k.endswith(f'_r{r}') and k not in exp for k in got_trace):
            return res.violation(f'rank {r}: a sample was recorded for a call that raised', case)
    res.count('sync_barriers', sum(1 for e in run.trace if e['kind'] == 'barrier'))
    if ncalls >= 2:
        res.nontrivial.add('sync-' + stable_hash(W, plan_))


_MAXLEN = [40]


def run_long_case(rng, res, idx):
    """Thousands of completed calls under one name (a long training run): every sample since the last clear counts, whatever
    the history length. A scripted clock gives call i the integer duration d_i (two reads per call: start, end)."""
    import kfac.tracing as tracing

    N = rng.choice([rng.randint(4097, 9000), rng.randint(4097, 9000), rng.randint(1000, 4096), 4096, 4097, 8193])
    durs = [rng.randint(1, 9) for _ in range(N)]
    state = dict(t=0, i=0, phase=0)

    def now():
        if state['phase'] == 0:
            state['phase'] = 1
            return float(state['t'])
        state['phase'] = 0
        state['t'] += durs[state['i']]
        state['i'] += 1
        return float(state['t'])

    real_time = tracing.time
    tracing.time = types.SimpleNamespace(time=now)
    tracing.clear_trace()
    case = dict(long_idx=idx, calls=N)
    try:
        def body():
            return None
        body.__name__ = 'long_step'
        f = tracing.trace()(body)
        checkpoints = sorted({N, rng.randint(1, N), min(N, 4096), min(N, 4097)})
        done = 0
        for cp in checkpoints:
            for _ in range(cp - done):
                f()
            done = cp
            for mh in (None, done + 5, done, max(1, done - 1), 4096, 4097, 5000, 1, rng.randint(1, done)):
                for average in (False, True):
                    res.count('long_history_queries')
                    got = tracing.get_trace(average=average, max_history=mh).get('long_step')
                    w = durs[:done] if mh is None else durs[:done][-mh:]
                    exp = (sum(w) / len(w)) if average else float(sum(w))
                    if got != exp:
                        return res.violation(f'after {done} completed calls of one traced function get_trace(average={average}, max_history={mh}) = {got}, the scripted clock implies {exp}', case)
        tracing.clear_trace()
        if tracing.get_trace():
            return res.violation('clear_trace() left samples behind after a long history', case)
        if N > 4096:
            res.nontrivial.add(stable_hash('long', N))
    finally:
        tracing.time = real_time
        tracing.clear_trace()


def tier_len(rng):
    return _MAXLEN[0]


def plan(tier, seed):
    n = tier_value(tier, 600, 200000)
    shards = tier_value(tier, 4, 14)
    return [dict(first=i * (n // shards), count=n // shards, budget_s=tier_value(tier, 20, 120)) for i in range(shards)]


def run_shard(spec, res):
    _MAXLEN[0] = 40 if spec['tier'] == 'quick' else 200
    dl = Deadline(spec['budget_s'])
    for i in range(spec['first'], spec['first'] + spec['count']):
        if dl.over():
            break
        rng = case_rng(spec['seed'], ID, i)
        res.evaluations += 1
        run_case(rng, res, i)
        if i % 10 == 0:
            run_sync_case(case_rng(spec['seed'], ID, i, 'sync'), res, i)
        if i % 75 == 5:
            run_long_case(case_rng(spec['seed'], ID, i, 'long'), res, i)


def replay(case, res):
    _MAXLEN[0] = 200
    # cases are regenerated from (seed, index); both tiers' lengths are tried
    import os
    seed = int(os.environ.get('VERIF_SEED', '0'))
    if 'long_idx' in case:
        return run_long_case(case_rng(seed, ID, case['long_idx'], 'long'), res, case['long_idx'])
    if case.get('kind') == 'sync':
        return run_sync_case(case_rng(seed, ID, case['idx'], 'sync'), res, case['idx'])
    for ml in (40, 200):
        _MAXLEN[0] = ml
        run_case(case_rng(seed, ID, case['case']), res, case['case'])
