"""Run a per-rank function as REAL processes on the gloo backend (one OS process per rank).

simdist decides the schedule-dependent properties on a cooperative simulator; this module complements it with the real
thing on a small scale: gloo's own worker threads complete the futures, so completion callbacks of kfac (bucket
unpacking, symmetric fill, averaging) run on a thread other than the one that mutates the bucket state. Optional
line-level jitter (sys.monitoring LINE events inside kfac/distributed.py that yield the GIL or sleep a few
microseconds, in the main thread and in the callback threads alike) widens those windows.

usage from a check:
    results, err = realdist.run('kverif.props.c08', 'real_rank', payload, world)
`payload` must be JSON; the per-rank function regenerates everything else from it. A failure to run (gloo
unavailable, time-out) is reported as err and is a skip / inconclusive for the caller, never a violation.
"""
from __future__ import annotations

import json
import os
import pickle
import subprocess
import sys
import tempfile

from kverif.common import VERIF_ROOT


def install_jitter(seed, prob):
    """LINE-level yield injection restricted to kfac/distributed.py (statement starts only)."""
    import random
    import time

    import kfac.distributed as kd

    mon = sys.monitoring
    tool = mon.PROFILER_ID
    try:
        mon.use_tool_id(tool, 'kverif-jitter')
    except ValueError:
        return None
    rng = random.Random(seed)
    counter = {'lines': 0, 'yields': 0, 'long_sleeps': 0}
    # some ranks are LATE ranks: now and then they fall a few milliseconds behind their peers, so that collectives of the
    # others stay in flight (and their completion callbacks pending) while those go on
    late = rng.random() < 0.5
    fname = kd.__file__

    def on_line(code, line):
        if code.co_filename != fname:
            return mon.DISABLE
        counter['lines'] += 1
        x = rng.random()
        if late and x > 0.985:
            counter['long_sleeps'] += 1
            time.sleep(rng.choice([1e-3, 3e-3, 8e-3]))
        elif x < prob:
            counter['yields'] += 1
            time.sleep(0 if x < prob / 2 else 2e-5)
        return None

    mon.register_callback(tool, mon.events.LINE, on_line)
    mon.set_events(tool, mon.events.LINE)
    return counter


def rank_main():
    module, func, payloadfile, rank, world, initfile, outfile = sys.argv[1], sys.argv[2], sys.argv[3], int(sys.argv[4]), int(sys.argv[5]), sys.argv[6], sys.argv[7]
    import warnings
    warnings.simplefilter('ignore')
    from kverif.common import import_kfac
    import_kfac()
    import importlib

    import torch
    import torch.distributed as dist

    with open(payloadfile) as f:
        payload = json.load(f)
    torch.set_num_threads(1)
    dist.init_process_group('gloo', init_method='file://' + initfile, rank=rank, world_size=world)
    counter = None
    if payload.get('jitter'):
        counter = install_jitter(payload.get('jitter_seed', 0) * 131 + rank, float(payload['jitter']))
    out = getattr(importlib.import_module(module), func)(payload, rank, world)
    if counter is not None:
        sys.monitoring.set_events(sys.monitoring.PROFILER_ID, 0)
    dist.barrier()
    with open(outfile, 'wb') as f:
        pickle.dump(dict(result=out, jitter=counter), f)
    dist.destroy_process_group()


def run(module, func, payload, world, timeout=120):
    tmp = tempfile.mkdtemp(prefix='kverif-real-')
    try:
        pf = os.path.join(tmp, 'payload.json')
        with open(pf, 'w') as f:
            json.dump(payload, f)
        initfile = os.path.join(tmp, 'init')
        env = dict(os.environ, PYTHONPATH=VERIF_ROOT + os.pathsep + os.environ.get('PYTHONPATH', ''), OMP_NUM_THREADS='1')
        procs = [subprocess.Popen([sys.executable, '-c', 'from kverif.realdist import rank_main; rank_main()', module, func, pf, str(r), str(world), initfile,
                                   os.path.join(tmp, f'out{r}.pkl')], cwd=VERIF_ROOT, env=dict(env, PYTHONHASHSEED=str(7919 * (r + 1))), stdout=subprocess.PIPE, stderr=subprocess.STDOUT, text=True)
                 for r in range(world)]
        outs = []
        ok = True
        for p in procs:
            try:
                o, _ = p.communicate(timeout=timeout)
                outs.append(o)
                ok = ok and p.returncode == 0
            except subprocess.TimeoutExpired:
                for q in procs:
                    q.kill()
                for q in procs:
                    try:
                        q.communicate(timeout=5)
                    except Exception:  # noqa: BLE001
                        pass
                return None, 'TIMEOUT: real gloo run did not finish in %ds' % timeout
        if not ok:
            return None, 'RANK FAILED: ' + ' | '.join(x[-400:] for x in outs if x)
        res = []
        for r in range(world):
            with open(os.path.join(tmp, f'out{r}.pkl'), 'rb') as f:
                res.append(pickle.load(f))
        return res, None
    finally:
        import shutil
        shutil.rmtree(tmp, ignore_errors=True)
