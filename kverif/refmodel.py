"""float64 reference K-FAC: second moments, damped Kronecker solves, a small state machine.

Deliberately independent of kfac.layers (no import from the code under test):
only torch, autograd-captured module I/O and the statement's formulas.
"""
from __future__ import annotations

import math

import torch
import torch.nn.functional as F

D = torch.float64


# ---------------------------------------------------------------- moments
def moment_linear_in(x: torch.Tensor, bias: bool) -> torch.Tensor:
    r = x.detach().to(D).reshape(-1, x.shape[-1])
    if bias:
        r = torch.cat([r, torch.ones(r.shape[0], 1, dtype=D)], 1)
    return r.t() @ r / r.shape[0]


def moment_linear_out(g: torch.Tensor) -> torch.Tensor:
    r = g.detach().to(D).reshape(-1, g.shape[-1])
    return r.t() @ r / r.shape[0]


def conv_patches(x: torch.Tensor, conv) -> torch.Tensor:
    """rows = (batch, position), columns = (channel, kh, kw) - torch's own im2col."""
    xd = x.detach().to(D)
    pad = conv.padding
    if isinstance(pad, str):
        # torch's documented string paddings: 'valid' = none; 'same' = dilation*(k-1) zeros per dimension, the smaller half first
        if pad == 'valid':
            pad = (0, 0)
        else:
            tot = [d * (k - 1) for k, d in zip(conv.kernel_size, conv.dilation)]
            xd = F.pad(xd, (tot[1] // 2, tot[1] - tot[1] // 2, tot[0] // 2, tot[0] - tot[0] // 2))
            pad = (0, 0)
    p = F.unfold(xd, conv.kernel_size, padding=pad, stride=conv.stride, dilation=conv.dilation)
    return p.transpose(1, 2)  # B, S, C*kh*kw


def moment_conv_in(x: torch.Tensor, conv, bias: bool) -> torch.Tensor:
    p = conv_patches(x, conv)
    S = p.shape[1]
    r = p.reshape(-1, p.shape[-1])
    if bias:
        r = torch.cat([r, torch.ones(r.shape[0], 1, dtype=D)], 1)
    r = r / S
    return r.t() @ r / r.shape[0]


def moment_conv_out(g: torch.Tensor) -> torch.Tensor:
    S = g.shape[2] * g.shape[3]
    r = g.detach().to(D).permute(0, 2, 3, 1).reshape(-1, g.shape[1]) / S
    return r.t() @ r / r.shape[0]


def module_kind(m) -> str | None:
    if isinstance(m, torch.nn.Conv2d):
        return 'conv'
    if isinstance(m, torch.nn.Linear):
        return 'linear'
    return None


def moments(m, x, g):
    bias = getattr(m, 'bias', None) is not None
    if module_kind(m) == 'conv':
        return moment_conv_in(x, m, bias), moment_conv_out(g)
    return moment_linear_in(x, bias), moment_linear_out(g)


def combined_grad(m) -> torch.Tensor:
    """(out, in*kh*kw [+1]) matrix of the module's current .grad, float64 clone."""
    g = m.weight.grad.detach().to(D).reshape(m.weight.shape[0], -1)
    if getattr(m, 'bias', None) is not None:
        g = torch.cat([g, m.bias.grad.detach().to(D).reshape(-1, 1)], 1)
    return g.clone()


# ---------------------------------------------------------------- solves
def eig_psd(M):
    w, Q = torch.linalg.eigh((M + M.t()) / 2)
    return w.clamp(min=0.0), Q


def solve_inverse(Dm, A, G, lam):
    Ia = torch.eye(A.shape[0], dtype=D)
    Ig = torch.eye(G.shape[0], dtype=D)
    return torch.linalg.solve(G + lam * Ig, Dm) @ torch.linalg.inv(A + lam * Ia)


def solve_eigen(Dm, A, G, lam):
    wa, Qa = eig_psd(A)
    wg, Qg = eig_psd(G)
    return Qg @ ((Qg.t() @ Dm @ Qa) / (torch.outer(wg, wa) + lam)) @ Qa.t()


def kappa_inverse(A, G, lam):
    wa = torch.linalg.eigvalsh((A + A.t()) / 2)
    wg = torch.linalg.eigvalsh((G + G.t()) / 2)
    # absolute values: loaded factors may be indefinite (the inverse method inverts whatever A + lambda I is)
    ea, eg = (wa + lam).abs(), (wg + lam).abs()
    ka = float(ea.max()) / max(float(ea.min()), 1e-300)
    kg = float(eg.max()) / max(float(eg.min()), 1e-300)
    return float(ka * kg)


def kappa_eigen(A, G, lam):
    wa, _ = eig_psd(A)
    wg, _ = eig_psd(G)
    d = torch.outer(wg, wa) + lam
    return float(d.max() / d.min())


def eps_of(dt) -> float:
    return float(torch.finfo(dt).eps)


# ---------------------------------------------------------------- state machine
class RefKFAC:
    """The statement's K-FAC (C04, C05, C01, C07) in float64."""

    def __init__(self, names, method, prediv, hp, accumulation_steps=1, hook=True):
        self.names = list(names)
        self.method = method
        self.prediv = prediv
        self.hp = dict(hp)  # F, I, damping, decay, kl, lr (values or callables)
        self.acc = accumulation_steps
        self.hook = hook
        self.steps = 0
        self.A = {n: None for n in names}
        self.G = {n: None for n in names}
        self.pa = {n: [] for n in names}
        self.pg = {n: [] for n in names}
        self.mini = {n: 0 for n in names}
        self.snap = {}
        self.factor_updates = 0
        self.last_factor_update_step = None
        self.last_refresh_step = None

    def val(self, k):
        v = self.hp[k]
        return v(self.steps) if callable(v) else v

    # a forward/backward pass in train mode with captured per-layer moments
    def forward_backward(self, mom, train=True):
        if not train:
            return
        if self.steps % self.val('F') == 0:
            for n in self.names:
                if n in mom:
                    self.pa[n].append(mom[n][0])
                    self.pg[n].append(mom[n][1])
                    self.mini[n] += 1
                    if self.hook and self.mini[n] % self.acc == 0:
                        self._update_layer(n)

    def forward_only(self, mom_a):
        """A train-mode forward pass that is not followed by a backward pass (only meaningful when factors are updated in step())."""
        if self.steps % self.val('F') == 0:
            for n in self.names:
                if n in mom_a:
                    self.pa[n].append(mom_a[n])

    def reset_batch(self):
        for n in self.names:
            self.pa[n] = []
            self.pg[n] = []

    def _update_layer(self, n):
        d = self.val('decay')
        changed = False
        if self.pa[n]:
            Ma = sum(self.pa[n]) / len(self.pa[n])
            if self.A[n] is None:
                self.A[n] = torch.eye(Ma.shape[0], dtype=D)
            self.A[n] = d * self.A[n] + (1 - d) * Ma
            self.pa[n] = []
            changed = True
        if self.pg[n]:
            Mg = sum(self.pg[n]) / len(self.pg[n])
            if self.G[n] is None:
                self.G[n] = torch.eye(Mg.shape[0], dtype=D)
            self.G[n] = d * self.G[n] + (1 - d) * Mg
            self.pg[n] = []
            changed = True
        if changed:
            self.factor_updates += 1
            self.last_factor_update_step = self.steps

    def _update_factors(self):
        for n in self.names:
            self._update_layer(n)

    def refresh(self):
        for n in self.names:
            self.snap[n] = (self.A[n].clone(), self.G[n].clone(), self.val('damping'))
        self.last_refresh_step = self.steps

    def solve(self, n, Dm):
        A, G, lam0 = self.snap[n]
        if self.method == 'inverse':
            return solve_inverse(Dm, A, G, lam0)
        lam = lam0 if self.prediv else self.val('damping')
        return solve_eigen(Dm, A, G, lam)

    def kappa(self, n):
        A, G, lam0 = self.snap[n]
        if self.method == 'inverse':
            return kappa_inverse(A, G, lam0)
        lam = lam0 if self.prediv else self.val('damping')
        return kappa_eigen(A, G, lam)

    def step(self, Dm: dict):
        """Dm: name -> combined gradient before the step. Returns (expected grads, nu, V)."""
        if not self.hook and self.steps % self.val('F') == 0:
            self._update_factors()
        refreshed = False
        if self.steps % self.val('I') == 0:
            self.refresh()
            refreshed = True
        V = {n: self.solve(n, Dm[n]) for n in self.names}
        kl = self.val('kl')
        lr = self.val('lr')
        vg = sum(float((V[n] * Dm[n]).sum()) * lr ** 2 for n in self.names)
        if kl is None:
            nu = 1.0
        else:
            nu = 1.0 if vg == 0 else min(1.0, math.sqrt(kl / abs(vg)))
        self.steps += 1
        self.mini = {n: 0 for n in self.names}
        return {n: nu * V[n] for n in self.names}, nu, V, refreshed

    # checkpoint support (C09): load restores factors + steps and refreshes at load
    def save(self):
        return dict(steps=self.steps, A={n: (None if a is None else a.clone()) for n, a in self.A.items()},
                    G={n: (None if g is None else g.clone()) for n, g in self.G.items()},
                    hp={k: v for k, v in self.hp.items() if not callable(v)})

    def load(self, st, compute_inverses=True):
        self.steps = st['steps']
        self.A = {n: (None if a is None else a.clone()) for n, a in st['A'].items()}
        self.G = {n: (None if g is None else g.clone()) for n, g in st['G'].items()}
        for k, v in st['hp'].items():
            self.hp[k] = v
        self.reset_batch()
        if compute_inverses and all(self.A[n] is not None for n in self.names):
            self.refresh()


# ---------------------------------------------------------------- capture
class Capture:
    """Harness-side hooks recording inputs and output-gradients of candidate modules.

    Must be installed BEFORE the preconditioner registers its own hooks, so that
    the harness sees the same tensors in the same passes.
    """

    def __init__(self, modules: dict):
        self.modules = modules  # name -> module
        self.inp = {}
        self.gout = {}
        self.handles = []
        for n, m in modules.items():
            self.handles.append(m.register_forward_pre_hook(self._pre(n)))
            self.handles.append(m.register_full_backward_hook(self._bwd(n)))

    def _pre(self, n):
        def h(m, inp):
            self.inp[n] = inp[0].detach().clone()
        return h

    def _bwd(self, n):
        def h(m, gi, go):
            self.gout[n] = go[0].detach().clone()
        return h

    def clear(self):
        self.inp = {}
        self.gout = {}

    def moments(self, scale: float = 1.0):
        out = {}
        for n, m in self.modules.items():
            if n in self.inp and n in self.gout:
                out[n] = moments(m, self.inp[n], self.gout[n] / scale)
        return out

    def moments_a(self):
        out = {}
        for n, m in self.modules.items():
            if n in self.inp:
                bias = getattr(m, 'bias', None) is not None
                out[n] = moment_conv_in(self.inp[n], m, bias) if module_kind(m) == 'conv' else moment_linear_in(self.inp[n], bias)
        return out

    def remove(self):
        for h in self.handles:
            h.remove()
