"""Single source of truth for MANIFEST.json (tools/gen_manifest.py)."""

SETUP_CMD = 'cd /verif && /venv/bin/python -m kverif.selftest'
NOTES = ('Runtime monitoring of kfac-pytorch (see DESIGN.md). Every check runs the real code in /repo\'s working tree '
         '(KVERIF_REPO overrides the path for mutation testing) under generated workloads and decides with an oracle over '
         'what was observed; exit 0 = held on what was observed (KNOWN-FINDING lines possible), 1 = VIOLATION, 2 = inconclusive.')
ENGINES = [
    dict(name='refmodel', path='/verif/kverif/refmodel.py', serves_properties=['C01', 'C04', 'C05', 'C07', 'C09', 'C10'],
         kind_free_text='float64 reference K-FAC state machine and linear-system oracle fed with harness-captured module I/O'),
    dict(name='simdist', path='/verif/kverif/simdist.py', serves_properties=['C02', 'C03', 'C08', 'C11', 'C13', 'C14', 'C18'],
         kind_free_text='ranks as threads on a Python c10d backend with asynchronous completion, controlled scheduler and online collective-matching monitors'),
    dict(name='contracts', path='/verif/kverif/props', serves_properties=['C06', 'C12', 'C14', 'C15', 'C16', 'C17', 'C19', 'C20'],
         kind_free_text='executable specifications evaluated next to the real functions on generated / enumerated inputs'),
]
_PENDING = 'check not built yet (framework under construction); see DESIGN.md for the planned oracle'
NOT_APPLICABLE = {'C%02d' % i: _PENDING for i in range(1, 21)}

CHECKS = []


def check(id, engine, level, technique, text, note, design_ref):
    CHECKS.append(dict(id=id, engine=engine, level=level, technique=technique, text=text, note=note, design_ref=design_ref))


check('C20', 'contracts', 'exploration', 'runtime monitor: scripted clock + reference sample lists, checked after every operation',
      'Random call/query/clear histories on the real kfac.tracing with the clock replaced by a scripted integer clock; '
      'every get_trace result, return value and exception is compared with an exact reference. Sampling, not proof: held on the histories observed.',
      'Trusts that kfac.tracing reads time only via its module attribute; sync barriers are a counting stub.', 'DESIGN.md §3 C20')

check('C19', 'contracts', 'exploration', 'runtime monitor: executable scheduler model stepped next to the real scheduler, exact float equality',
      'All 64 subsets of scheduled parameters (exhaustive) with random factor functions and call sequences on the real preconditioner; the lambdas\' '
      'arguments and every hyper-parameter value are compared exactly with an executable model after each call; exp_decay schedule checked on cap x k grids.',
      'Histories are sampled (<=60 calls); hyper-parameters read through public properties.', 'DESIGN.md §3 C19')
check('C17', 'contracts', 'exploration', 'runtime contract on the real static method: post-conditions + greedy replay with tie backtracking',
      'Exhaustive small domain plus random large cases through the real greedy_assignment; completeness, group confinement, co-location, balance bounds, '
      'existence of a decreasing-cost least-loaded replay, purity, and equality of results across PYTHONHASHSEED values.',
      'Tie-breaks are free; replay search capped at 20000 nodes per case (capped cases counted, other clauses still decide).', 'DESIGN.md §3 C17')
check('C06', 'contracts', 'exploration', 'runtime relational monitor over one real KAISAAssignment per rank (cross-rank view comparison)',
      'Exhaustive over world sizes (quick <=64, thorough <=320 plus 98/147/196), every divisor k, colocate on/off and five cost families: all public queries of '
      'all rank views are compared with relations taken from the statement; construction also through KFACPreconditioner (float/enum); equal digests across hash seeds.',
      'For W>16 only ranks {0,1,W//2,W-1,random} are instantiated; group handles are a recorder.', 'DESIGN.md §3 C06')
check('C14', 'simdist', 'exploration', 'exact round-trip oracle for every n up to a bound and sampled large n, with uninitialised memory poisoned + differential symmetric-vs-dense communication on the simulated backend and on real gloo ranks',
      'Every n<=256 (thorough 1024) x 4 dtypes x 5 contents (incl. the edges of the dtype: largest finite, infinities, NaN, denormals) x 3 layouts, plus large factors of 1025..6145 rows, round-trip exactly '
      '(new_empty poisoned with NaN meanwhile); on simulated worlds and on a few real gloo worlds symmetric allreduce/broadcast/bucketed equal dense bit for bit; '
      'invalid shapes raise NonSquareTensorError with zero backend operations.',
      'simdist stands in for the c10d backend; size-1 groups short-circuit before validation (recorded, not judged).', 'DESIGN.md §3 C14')
check('C15', 'refmodel', 'exploration', 'differential oracle: autograd gradients and F.unfold vs the helpers, float64 reference moments',
      'Generated conv/linear geometries: combined gradient equals sum g (x) [patch,1] in unfold column order, factors equal reference moments in the same coordinates, '
      'set/get identities, advertised shapes; thorough tier walks the full kernel x stride x padding grid.',
      'torch.nn.functional.unfold is the reference unfolding; dilation 1, groups 1.', 'DESIGN.md §3 C15')
check('C16', 'contracts', 'exploration', 'independent module-tree walk compared with what the real registration did (names, identities, hook counts)',
      'Generated module trees x skip-pattern lists: the set and names of registered layers, hook counts on every module and parameter values are compared with an independent walk; GPT-NeoX variant by class name.',
      'Leaf = module without children; hook bookkeeping read from torch hook dictionaries.', 'DESIGN.md §3 C16')

check('C01', 'refmodel', 'exploration', 'runtime value oracle: float64 re-solution of the damped Kronecker system from data captured at the API boundary',
      'Generated models/configurations/dtypes (incl. damping schedules): before/after gradients and state_dict factors of the real preconditioner are compared, layer by layer and step by step, '
      'with the float64 solution V scaled by one scalar fitted on the best-conditioned layer; every 8th case runs on 2-4 simulated ranks and checks every rank; tolerance derived from measured conditioning.',
      'Factors are read from state_dict(); the clip formula itself is C07; low-precision cases with a loose bound are counted trivial.', 'DESIGN.md §3 C01')
check('C02', 'simdist', 'exploration', 'differential/metamorphic oracle over real multi-rank executions on the simulated backend (rank-vs-rank, placement-vs-placement, union single-process)',
      'For fixed model/data/hyper-parameters the real KFACPreconditioner runs on 2-8 simulated ranks under several placements and scheduler policies; gradients must be equal across ranks, '
      'across placements and equal to single-process K-FAC on the union batch.',
      'simdist asynchronous c10d semantics; DDP emulated by explicit averaging; ranks share one process.', 'DESIGN.md §3 C02')
check('C05', 'refmodel', 'exploration', 'reference-model monitor: float64 K-FAC state machine in lock-step with the real preconditioner over generated histories',
      'Histories of train/eval/scheduler/reset/checkpoint events with constant or callable intervals and hyper-parameters; after every step the step count, factors '
      '(incl. bitwise-unchanged on non-update steps) and gradients must match the reference that preconditions with its snapshot.',
      'Documented call discipline (accumulation_steps passes per step, checkpoints at boundaries); finite histories (<=40 quick, <=200 thorough).', 'DESIGN.md §3 C05')

check('C03', 'simdist', 'exploration', 'online trace monitors (collective matching M1-M4) + logical stall detection on a controlled scheduler over real multi-rank executions; offline matcher over the streamed per-rank logs of real gloo ranks started as separate interpreters with different hash seeds',
      'Generated KAISA and GPT-NeoX histories (construction, hooks, steps, state_dict/memory_usage on rank subsets, load_state_dict, reset) on 1-8 (thorough 16) simulated ranks under '
      'seven scheduler policies, late completion delivery and line-level callback-timing stress: every collective of every rank is matched online for kind, shape, dtype, root and group '
      'membership, group creation order is compared across ranks, and a stall is a logical verdict (no runnable rank). A few worlds per shard run as real gloo processes (one interpreter and one '
      'PYTHONHASHSEED per rank, models with layers of equal cost); each rank streams what it issues to a log and the logs are matched offline, also when the world hangs.',
      'Asynchronous c10d semantics as implemented by simdist; DeepSpeed topology and Megatron layers are stand-ins; bounded histories.', 'DESIGN.md §3 C03')

check('C08', 'simdist', 'exploration', 'differential oracle (bucketed vs direct group sum, position-revealing data) on the simulated backend and on real gloo ranks with line-level jitter + backend trace segmentation monitor',
      'Generated submission sequences over group mixtures (incl. distinct equal-size groups sharing a rank), capacities, float and integer dtypes (incl. mixed), zero-element tensors, flags and 1-30 fill/flush cycles on 2-6 simulated ranks '
      '(and a few real gloo worlds whose completion callbacks run on gloo threads): '
      'every future is compared exactly with the sum over the requested group and with the real unbucketed allreduce; the backend trace must be an order-preserving, capacity-respecting segmentation; '
      'a second flush must issue nothing.',
      'All members of a group submit the same tensors for that group in the same order; distinct groups means distinct member sets.', 'DESIGN.md §3 C08')

check('C13', 'simdist', 'exploration', 'structural invariant at quiescent points (walk of tensors held per layer vs is_grad_worker / memory_usage; simulated and real gloo ranks) + per-step trace accounting by group class',
      'After every step of generated multi-rank runs: a rank holds second-order bytes for a layer iff it is a gradient worker, memory_usage() equals the bytes walked; the backend trace per step and rank '
      'is accounted by group class: only factor allreduces of the exact volume on the default group on factor steps, only inverse broadcasts (right volume, root) in gradient-worker groups on inverse steps, '
      'only gradient broadcasts in receiver groups; nothing in a world of one.',
      'Held tensors = reachable from vars(layer); simdist stands in for the backend; histories are construction + steps, 30% with a checkpoint restored into a fresh preconditioner in between.', 'DESIGN.md §3 C13')

check('C04', 'refmodel', 'exploration', 'runtime value oracle: float64 factor recurrence recomputed from harness-captured layer inputs / output-gradients, on one and on 2-4 simulated ranks',
      'After every step (and around eval passes) the factors in state_dict() are compared with decay*previous+(1-decay)*mean second moment (identity start, micro-batch and cross-rank mean, '
      'loss-scale division), must be bitwise unchanged on non-update steps, symmetric, PSD and stored in the requested dtype.',
      'The conv normalisation convention is fixed in DESIGN.md 2.2; bfloat16 factors get a looser (still discriminating) bound.', 'DESIGN.md §3 C04')

check('C07', 'refmodel', 'exploration', 'runtime value oracle: clip scale fitted from before/after gradients vs the formula evaluated on the float64 solve; single process and simulated ranks',
      'Generated models, learning rates and clip values (constant, callable, None, huge), zero-gradient steps and negative-curvature states: the fitted common scale must equal '
      'min(1, sqrt(kl/|sum<V,D> lr^2|)) at the current step, every layer must be the same multiple of V, the KL bound must hold, kl_clip=None must be accepted and leave R=V; '
      'on 2-4 simulated ranks every rank must use the same scalar under every gradient-worker count.',
      'Factors read from state_dict(); optional probe of _compute_grad_scale is compared when present.', 'DESIGN.md §3 C07')

check('C10', 'refmodel', 'exploration', 'bitwise snapshot monitor around every step()/eval pass + differential run against an identical model without K-FAC',
      'Generated module trees with unsupported, skipped, frozen and partially frozen layers and low-precision dtypes: parameters, buffers and gradients outside the registered layers must be bitwise '
      'unchanged by step(), registered gradients keep shape/dtype/device/contiguity and stay finite, eval-mode passes leave K-FAC state unchanged, outputs and autograd gradients equal the twin model\'s.',
      'Default memory format; twin comparison restricted to float32/float64 parameters.', 'DESIGN.md §3 C10')

check('C09', 'refmodel', 'fault_enumeration', 'fault enumeration over the checkpoint position: every step boundary of every generated run is a save/load point; resumed real run vs uninterrupted real run and vs the float64 reference',
      'For every boundary c in 0..T: steps, scalar hyper-parameters and factors must be restored bitwise (single process and 2-4 simulated ranks under COMM/HYBRID/MEM-OPT), a valid state never raises, '
      'a wrong layer count raises ValueError, the continued gradients equal the uninterrupted run when the live second-order data was fresh or is recomputed next, and always equal the reference that '
      'refreshes at load; include_factors=False / compute_inverses=False variants; multi-rank roll-backs into a live preconditioner with communication still in flight.',
      'A resume is a fresh preconditioner on the same model object; runs of 3-8 steps.', 'DESIGN.md §3 C09')

check('C12', 'contracts', 'exploration', 'runtime relational monitor over one real GPTNeoXAssignment per rank (cross-rank view comparison, greedy replay, recorded new_group order)',
      'Exhaustive over (pipe,data,model) topologies with product <=24 (thorough <=96), every local rank and five cost families: stage-wide agreement on inverse workers, least-loaded greedy replay, '
      'factor_worker / src_grad_worker / is_grad_worker relations from topology coordinates, broadcast flags, identical new_group sequences on all ranks, equal digests across hash seeds; '
      'the new_group order is additionally observed on the real front-end by the simdist runs of C03.',
      'DeepSpeed topology stand-in (stubs/deepspeed); group handles are recorder tuples.', 'DESIGN.md §3 C12')

check('C11', 'simdist', 'exploration', 'differential oracle over real executions: sharded GPT-NeoX run on simulated dp x mp x pp ranks vs unsharded real run, shard by shard',
      'Generated topologies (world <= 8, thorough <= 16), column/row/MLP stages, bias on/off, clipping active or not, bucketed or not, several steps, all scheduler policies: factors on the inverse workers '
      'equal the unsharded layer\'s, every rank holds exactly its shard of the unsharded (clipped) gradient, data-parallel replicas are bitwise equal and replicated biases equal across model-parallel peers.',
      'Megatron parallel layers and the DeepSpeed topology are stand-ins (DESIGN.md 2.4); pipeline stages are independent chains.', 'DESIGN.md §3 C11')

check('C18', 'simdist', 'fault_enumeration', 'fault enumeration over the checkpoint position of sharded GPT-NeoX runs on simulated ranks: saved-state oracle, restore oracle, resumed-vs-uninterrupted differential, collective monitors',
      'For generated topologies and runs every boundary 1..T is a checkpoint position (in-memory or directory, compute_inverses on/off): every rank\'s saved state (or one file per layer) holds the factors '
      'of every layer exactly as held by its inverse worker, save and load keep all collectives matched, the gathering ranks get the saved factors and second-order data back, and the resumed gradients equal '
      'the uninterrupted sharded run whenever the rule of C09 says so.',
      'Stand-ins as in C11; save and load separated by a harness join; temporary checkpoint directories are removed.', 'DESIGN.md §3 C18')
NOT_APPLICABLE.clear()
