"""Single source of truth for MANIFEST.json (tools/gen_manifest.py)."""

SETUP_CMD = 'cd /verif && /venv/bin/python -m kverif.selftest'
NOTES = ('Runtime monitoring of kfac-pytorch (see DESIGN.md). Every check runs the real code in /repo\'s working tree '
         '(KVERIF_REPO overrides the path for mutation testing) under generated workloads and decides with an oracle over '
         'what was observed; exit 0 = held on what was observed (KNOWN-FINDING lines possible), 1 = VIOLATION, 2 = inconclusive.')
ENGINES = [
    dict(name='refmodel', path='/verif/kverif/refmodel.py', serves_properties=['C01', 'C04', 'C05', 'C07', 'C09', 'C10'],
         kind_free_text='float64 reference K-FAC state machine and linear-system oracle fed with harness-captured module I/O'),
    dict(name='simdist', path='/verif/kverif/simdist.py', serves_properties=['C02', 'C03', 'C08', 'C11', 'C13', 'C14', 'C18'],
         kind_free_text='ranks as threads on a Python c10d backend with asynchronous completion, controlled scheduler and online collective-matching monitors'),
    dict(name='contracts', path='/verif/kverif/props', serves_properties=['C06', 'C12', 'C14', 'C15', 'C16', 'C17', 'C19', 'C20'],
         kind_free_text='executable specifications evaluated next to the real functions on generated / enumerated inputs'),
]
_PENDING = 'check not built yet (framework under construction); see DESIGN.md for the planned oracle'
NOT_APPLICABLE = {'C%02d' % i: _PENDING for i in range(1, 21)}

CHECKS = []


def check(id, engine, level, technique, text, note, design_ref):
    CHECKS.append(dict(id=id, engine=engine, level=level, technique=technique, text=text, note=note, design_ref=design_ref))


check('C20', 'contracts', 'exploration', 'runtime monitor: scripted clock + reference sample lists, checked after every operation',
      'Random call/query/clear histories on the real kfac.tracing with the clock replaced by a scripted integer clock; '
      'every get_trace result, return value and exception is compared with an exact reference. Sampling, not proof: held on the histories observed.',
      'Trusts that kfac.tracing reads time only via its module attribute; sync barriers are a counting stub.', 'DESIGN.md §3 C20')
