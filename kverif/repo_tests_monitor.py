"""pytest plugin: the repository's own test-suite as one more workload under the monitors.

    cd /repo && KVERIF_MONITORS=C17 KVERIF_MON_OUT=<json> PYTHONPATH=<tree>:/repo:/verif /venv/bin/python -m pytest -q -p kverif.repo_tests_monitor tests/...

The real functions are wrapped where the tests call them; a monitor never raises and never changes a return value (a
firing monitor is recorded, the test goes on), it only looks at calls that return normally and whose arguments are
inside the domain of the property. Evaluation counts are reported; zero evaluations are reported as such.
"""
from __future__ import annotations

import copy
import json
import os

from kverif.common import Result, import_kfac

# the tests run from /repo (their working directory comes first on sys.path): bind `kfac` to the tree under test BEFORE any
# test module imports it (KVERIF_REPO for scratch copies; it is /repo itself otherwise) and assert that this is what we got
import_kfac()

WHICH = set(os.environ.get('KVERIF_MONITORS', 'C10,C14,C17').split(','))


class _Stream(Result):
    """Result whose events go straight to an append-only log: most tests of the repository run their body in forked
    worker processes, whose in-memory counters would be lost."""

    def _emit(self, rec):
        out = os.environ.get('KVERIF_MON_OUT')
        if out:
            with open(out, 'a') as f:
                f.write(json.dumps(rec) + '\n')

    def count(self, name, n=1):
        self._emit(dict(count=name, n=n))

    def violation(self, what, case, mechanism=None, **extra):
        from kverif.common import jsonable
        self._emit(dict(violation=dict(what=what, mechanism=mechanism, case=jsonable(case))))

    def add(self, name, item):
        pass


RES = _Stream()


def fold(path):
    """fold the event log into (counters, violations, info)."""
    counters, violations, info = {}, [], []
    if os.path.exists(path):
        for ln in open(path):
            try:
                r = json.loads(ln)
            except ValueError:
                continue
            if 'count' in r:
                counters[r['count']] = counters.get(r['count'], 0) + r['n']
            elif 'violation' in r:
                violations.append(r['violation'])
            elif 'info' in r:
                info.append(r['info'])
    return counters, violations, info


def _safe(fn):
    def run(*a, **k):
        try:
            fn(*a, **k)
        except Exception as e:  # noqa: BLE001  the monitor must never disturb the test
            RES.count('monitor_errors')
            RES._emit(dict(info=f'{fn.__name__}: {type(e).__name__}: {e}'[:200]))
    return run


def pytest_configure(config):
    import torch
    import kfac.assignment as ka
    import kfac.distributed as kd
    import kfac.base_preconditioner as kb

    if 'C17' in WHICH:
        from kverif.props import c17
        orig = ka.KAISAAssignment.greedy_assignment

        @_safe
        def check17(work, groups, world, coloc, w0, g0, out):
            flat = [w for g in groups for w in g]
            in_domain = (len(flat) == len(set(flat)) and all(len(g) > 0 for g in groups) and len(groups) > 0
                         and all(isinstance(c, (int, float)) and c >= 0 for fs in work.values() for c in fs.values()))
            if not in_domain:
                return RES.count('c17_calls_outside_domain')
            RES.count('c17_calls_checked')
            case = dict(where=os.environ.get('PYTEST_CURRENT_TEST', ''), work=w0, groups=g0, world=world, colocate=coloc)
            if work != w0 or groups != g0:
                return RES.violation('greedy_assignment mutated its arguments (call made by the repository tests)', case)
            c17.post(work, groups, world, coloc, out, RES, case)

        def wrapped(work, worker_groups, world_size, colocate_factors):
            w0, g0 = copy.deepcopy(work), copy.deepcopy(worker_groups)
            out = orig(work, worker_groups, world_size, colocate_factors)
            check17(work, worker_groups, world_size, colocate_factors, w0, g0, out)
            return out
        ka.KAISAAssignment.greedy_assignment = staticmethod(wrapped)

    if 'C14' in WHICH:
        orig_fill = kd.fill_triu

        @_safe
        def check14(shape, triu, out):
            if len(shape) != 2 or shape[0] != shape[1] or triu.numel() != shape[0] * (shape[0] + 1) // 2:
                return RES.count('c14_calls_outside_domain')
            RES.count('c14_calls_checked')
            back = kd.get_triu(out)
            same = lambda a, b: bool(((a == b) | (torch.isnan(a) & torch.isnan(b))).all())  # noqa: E731
            if tuple(out.shape) != tuple(shape) or out.dtype != triu.dtype or not same(back, triu) or not same(out, out.t()):
                RES.violation('fill_triu result is not the symmetric matrix whose upper triangle was given (call made by the repository tests)',
                              dict(where=os.environ.get('PYTEST_CURRENT_TEST', ''), shape=list(shape)))

        def fill(shape, triu_tensor):
            out = orig_fill(shape, triu_tensor)
            check14(tuple(shape), triu_tensor, out)
            return out
        kd.fill_triu = fill

    if 'C10' in WHICH:
        orig_step = kb.BaseKFACPreconditioner.step

        def snapshot(p):
            mods = [layer.module.module for _, layer in p._layers.values()]
            reg = {id(q) for m in mods for q in m.parameters()}
            roots = list(p._layers.keys())   # registered modules (keys of the layer table)
            params = []
            seen = set()
            for m in roots:
                for q in m.parameters():
                    if id(q) not in seen:
                        seen.add(id(q))
                        params.append(q)
            return reg, params

        def step(self, *a, **k):
            snap = None
            try:
                reg, params = snapshot(self)
                snap = (reg, params, [q.detach().clone() for q in params], [None if q.grad is None else q.grad.detach().clone() for q in params], self.steps)
            except Exception:  # noqa: BLE001
                RES.count('c10_snapshots_skipped')
            r = orig_step(self, *a, **k)
            if snap is not None:
                check10(self, snap)
            return r

        @_safe
        def check10(p, snap):
            reg, params, vals, grads, steps = snap
            RES.count('c10_steps_checked')
            case = dict(where=os.environ.get('PYTEST_CURRENT_TEST', ''))
            if p.steps != steps + 1:
                return RES.violation(f'step() moved the step count from {steps} to {p.steps} (call made by the repository tests)', case)
            for q, v, g in zip(params, vals, grads):
                if not torch.equal(q.detach(), v):
                    return RES.violation('step() changed a parameter value (call made by the repository tests)', case)
                if g is not None and q.grad is not None and (q.grad.shape != g.shape or q.grad.dtype != g.dtype):
                    return RES.violation('step() changed shape or dtype of a gradient (call made by the repository tests)', case)
                if g is not None and torch.isfinite(g).all() and q.grad is not None and not torch.isfinite(q.grad).all():
                    RES.count('c10_nonfinite_after_finite')   # information: the tests use untrained tiny models; judged in C10 proper with damping control
        kb.BaseKFACPreconditioner.step = step


def pytest_sessionfinish(session, exitstatus):
    RES._emit(dict(count='pytest_sessions_finished', n=1))
