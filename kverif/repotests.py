"""Run (part of) the repository's own test-suite with the monitors of kverif.repo_tests_monitor attached and fold what
they observed into a shard result. The tests are only a workload here: their own pass/fail status is not judged."""
from __future__ import annotations

import os
import subprocess
import sys
import tempfile

from kverif.common import REPO, VERIF_ROOT


def run(monitor_id, files, res, timeout=900):
    tmp = tempfile.mkdtemp(prefix='kverif-repotests-')
    log = os.path.join(tmp, 'mon.jsonl')
    try:
        env = dict(os.environ, KVERIF_MONITORS=monitor_id, KVERIF_MON_OUT=log, PYTHONDONTWRITEBYTECODE='1',
                   PYTHONPATH=os.pathsep.join([REPO, '/repo', VERIF_ROOT]))
        try:
            p = subprocess.run([sys.executable, '-m', 'pytest', '-q', '--no-header', '-p', 'kverif.repo_tests_monitor', '-p', 'no:cacheprovider', '--timeout=600'] + files,
                               cwd='/repo', env=env, stdout=subprocess.PIPE, stderr=subprocess.STDOUT, text=True, timeout=timeout)
            res.count('repo_tests_pytest_runs')
            res.info.append('repo tests under monitors: ' + (p.stdout.strip().splitlines() or ['?'])[-1][:120])
        except subprocess.TimeoutExpired:
            res.skip('repository tests under monitors timed out')
            return
        from kverif.repo_tests_monitor import fold
        counters, violations, info = fold(log)
        for k, v in counters.items():
            res.count('repo_tests_' + k, v)
        for v in violations:
            res.violation(v['what'], dict(v['case'], repo_tests=files, monitor=monitor_id), mechanism=v.get('mechanism'))
        for i in info[:5]:
            res.info.append('repo tests monitor: ' + i)
    finally:
        import shutil
        shutil.rmtree(tmp, ignore_errors=True)
