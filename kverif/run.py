"""CLI: python -m kverif.run <ID> --tier quick|thorough [--replay PATH]."""
from __future__ import annotations

import argparse
import os
import sys


def main() -> int:
    ap = argparse.ArgumentParser()
    ap.add_argument('pid')
    ap.add_argument('--tier', default=os.environ.get('VERIF_TIER', 'quick'), choices=['quick', 'thorough'])
    ap.add_argument('--seed', type=int, default=int(os.environ.get('VERIF_SEED', '0')))
    ap.add_argument('--replay')
    a = ap.parse_args()
    os.environ.setdefault('PYTHONHASHSEED', '0')
    from kverif import driver

    pid = a.pid.upper()
    if a.replay:
        return driver.run_replay(pid, a.replay)
    return driver.run_check(pid, a.tier, a.seed)


if __name__ == '__main__':
    sys.exit(main())
