"""Multi-rank KAISA scenarios on simdist: one rank function driven by a JSON-able spec.

spec = dict(model_seed, cfg (kharness config + 'k' grad workers), history, data_seed, batch, record=[...])
Events: ('train',), ('eval',), ('sd', [ranks]), ('mem', [ranks]), ('load', compute_inverses), ('reset',)
"""
from __future__ import annotations

import copy
import random
import warnings

import torch
import torch.distributed as dist

from kverif import gen
from kverif import kharness as kh
from kverif import refmodel as rm
from kverif import simdist


class ConfigRejected(Exception):
    """The constructor refused the configuration (outside the configuration space)."""


def build_model(spec):
    rng = random.Random(spec['model_seed'])
    pdt = kh.DT[spec['cfg']['pdt']]
    if spec.get('mixed_cast'):
        a, b, c = rng.randint(2, 4), rng.randint(2, 4), rng.randint(1, 3)
        model = torch.nn.Sequential(torch.nn.Linear(a, b).float(), torch.nn.Tanh(), gen.Cast(torch.float64), torch.nn.Linear(b, c).double())
        g = torch.Generator().manual_seed(spec['model_seed'] + 1)
        gen.init_params(model, g)
        return model, (a,), dict(desc=[f'lin{a}->{b}:f32', 'cast64', f'lin{b}->{c}:f64'])
    model, in_shape, info = gen.runnable_model(rng, dtype=pdt, allow_conv=spec.get('allow_conv', True),
                                               unsupported=spec.get('unsupported', True), small=True,
                                               allow_swap=bool(spec.get('allow_swap')))   # (the union-batch reference splits outputs along dim 0)
    g = torch.Generator().manual_seed(spec['model_seed'] + 1)
    gen.init_params(model, g)
    if not spec.get('var_res'):
        # multi-rank scenarios keep one resolution: the single-process union-batch reference concatenates the ranks' batches
        in_shape = tuple(in_shape)
    return model, in_shape, info


def precond(model, spec, world):
    from kfac.preconditioner import KFACPreconditioner
    cfg = dict(spec['cfg'])
    kw = kh.precond_kwargs(cfg)
    k = cfg.get('k')
    if k is not None:
        if cfg.get('frac_as_enum') and k in (1, world) or (cfg.get('frac_as_enum') and 2 * k == world):
            from kfac.enums import DistributedStrategy
            kw['grad_worker_fraction'] = (DistributedStrategy.COMM_OPT if k == world else
                                          DistributedStrategy.MEM_OPT if k == 1 else DistributedStrategy.HYBRID_OPT)
        else:
            kw['grad_worker_fraction'] = k / world
    with warnings.catch_warnings():
        warnings.simplefilter('ignore')
        try:
            return KFACPreconditioner(model, **kw), kw
        except ValueError as e:
            raise ConfigRejected(str(e)) from None


def flat_grads(model):
    return torch.cat([q.grad.detach().double().flatten() for q in model.parameters() if q.grad is not None]).clone()


def held_tensors(layer):
    """All tensors reachable from vars(layer) (futures resolved, module excluded), de-duplicated by storage.
    The running factors are recognised by identity with the public a_factor / g_factor properties (reported under the
    keys '_a_factor' / '_g_factor' whatever the private attribute is called)."""
    seen = {}
    out = {}
    ident = {}
    for key, prop in (('_a_factor', 'a_factor'), ('_g_factor', 'g_factor')):
        t = getattr(layer, prop, None)
        if isinstance(t, torch.Tensor):
            ident[(t.untyped_storage().data_ptr(), t.storage_offset(), tuple(t.shape))] = key
    def leaves(v, depth=0):
        # tensors held directly or inside plain containers (a cache kept as (key, tensor) or {key: tensor} is still held)
        if isinstance(v, (torch._C.Future, torch.futures.Future)):
            v = v.wait()
        if isinstance(v, torch.Tensor):
            yield v
        elif isinstance(v, (tuple, list, set, frozenset)) and depth < 4:
            for x in v:
                yield from leaves(x, depth + 1)
        elif isinstance(v, dict) and depth < 4:
            for x in v.values():
                yield from leaves(x, depth + 1)

    for k, v0 in vars(layer).items():
        if k in ('module', 'tdc'):
            continue
        for v in leaves(v0):
            key = (v.untyped_storage().data_ptr(), v.storage_offset(), tuple(v.shape))
            if key in seen:
                continue
            seen[key] = k
            name = ident.get(key, k)
            out[name] = out.get(name, 0) + v.nelement() * v.element_size()
    return out


def rank_fn(spec):
    def fn(rank, world):
        cfg = spec['cfg']
        model, in_shape, info = build_model(spec)
        layers = gen.eligible_layers(model)
        cap = rm.Capture(layers) if 'moments' in spec.get('record', ()) else None
        p, kw = precond(model, spec, world)
        dgen = torch.Generator().manual_seed(spec['data_seed'] * 1000 + rank)
        lgen = torch.Generator().manual_seed(spec['data_seed'])  # loss projections are shared
        rec = dict(grads=[], factors=[], moments=[], mem=[], held=[], steps=[], sd_steps=[], D=[], assignment=None)
        a = p._assignment
        rec['assignment'] = {n: dict(inv={f: a.inv_worker(n, f) for f in a.get_factors(n)}, is_grad_worker=a.is_grad_worker(n),
                                     src=a.src_grad_worker(n)) for n in a.get_layers()}
        B = spec.get('batch', 3)
        step_no = 0
        scale = cfg.get('scale') or 1.0

        def fwd_bwd():
            x = gen.make_batch(dgen, B, in_shape, kh.DT[cfg['pdt']])
            if cap is not None:
                cap.clear()
            out = model(x)
            loss = gen.loss_fn(cfg['loss'], out, lgen) if cfg['loss'] != 'proj' else out.float().pow(2).mean()
            (loss * scale).backward()
            if cap is not None and model.training:
                rec['moments'].append((step_no, cap.moments(scale)))

        for ei, ev in enumerate(spec['history']):
            kind = ev[0]
            simdist.phase((kind, step_no, ei))
            if kind == 'train':
                model.train()
                model.zero_grad()
                for _ in range(cfg['acc']):
                    fwd_bwd()
                if 'held' in spec.get('record', ()) and step_no in (spec.get('held_mid_steps') or ()):
                    # the memory query in the middle of an iteration: batch buffers of an accumulation window / of the no-hook
                    # mode are alive now (reports first, then the walk - see below)
                    total_m = dict(p.memory_usage())
                    reported_m = {n: dict(layer.memory_usage()) for n, layer in p._layers.values()}
                    rec.setdefault('held_mid', {})[step_no] = ({n: dict(held=held_tensors(layer), reported=reported_m[n]) for n, layer in p._layers.values()}, total_m)
                simdist.phase(('avg', step_no, ei))
                with torch.no_grad():
                    if scale != 1.0:
                        for q in model.parameters():
                            if q.grad is not None:
                                q.grad /= scale
                simdist.allreduce_mean_grads(model.parameters(), size=world)
                if 'D' in spec.get('record', ()):
                    rec['D'].append({n: rm.combined_grad(m) for n, m in layers.items()})
                simdist.phase(('step', step_no, ei))
                p.step()
                simdist.phase(('after', step_no, ei))
                rec['grads'].append(flat_grads(model))
                rec['steps'].append(p.steps)
                if 'layer_grads' in spec.get('record', ()):
                    rec.setdefault('layer_grads', []).append({n: rm.combined_grad(m) for n, m in layers.items()})
                if 'factors' in spec.get('record', ()):
                    if spec.get('readback_steps') is not None and step_no not in spec['readback_steps']:
                        rec['factors'].append(None)   # no read-back here: reading the factors waits on their futures
                    else:
                        sd = p.state_dict()['layers']
                        rec['factors'].append({n: (sd[n]['A'].clone(), sd[n]['G'].clone()) for n in sd})
                if 'held' in spec.get('record', ()) and spec.get('held_steps') is not None and step_no not in spec['held_steps']:
                    # no query at this boundary: communication started in this step may stay in flight into the next iteration
                    rec['held'].append(None)
                    rec['mem'].append(None)
                elif 'held' in spec.get('record', ()):
                    # ask for the reports FIRST (communication results may still be in flight at this point: the report must
                    # account for them), only then walk the tensors (the walk itself waits on the futures)
                    total = dict(p.memory_usage())
                    reported = {n: dict(layer.memory_usage()) for n, layer in p._layers.values()}
                    h = {}
                    for n, layer in p._layers.values():
                        h[n] = dict(held=held_tensors(layer), reported=reported[n])
                    rec['held'].append(h)
                    rec['mem'].append(total)
                if spec.get('sgd_lr'):
                    with torch.no_grad():
                        for q in model.parameters():
                            if q.grad is not None:
                                q -= spec['sgd_lr'] * q.grad
                step_no += 1
            elif kind == 'eval':
                model.eval()
                fwd_bwd()
                model.train()
            elif kind == 'sd':
                if rank in ev[1]:
                    sd = p.state_dict()
                    rec['sd_steps'].append(sd['steps'])
            elif kind == 'mem':
                if rank in ev[1]:
                    rec['mem'].append(dict(p.memory_usage()))
            elif kind == 'reset':
                p.reset_batch()
            elif kind == 'rollback':
                # roll back inside the same job: save, run a discarded train-mode pass (its factor communication may still be
                # in flight), then restore into the SAME live preconditioner (only generated for hook mode, accumulation 1)
                sd = copy.deepcopy(p.state_dict())
                rgen = torch.Generator().manual_seed(spec['data_seed'] * 77 + rank + ei)
                model.zero_grad()
                xr = gen.make_batch(rgen, B, in_shape, kh.DT[cfg['pdt']])
                model(xr).float().pow(2).mean().backward()
                want = copy.deepcopy(sd)
                p.load_state_dict(sd, compute_inverses=ev[1])
                p.reset_batch()
                model.zero_grad()
                got = p.state_dict()
                ok_f = all(torch.equal(got['layers'][n][f], want['layers'][n][f]) for n in want['layers'] for f in ('A', 'G') if want['layers'][n][f] is not None)
                rec.setdefault('loads', []).append(dict(event=ei, factors_ok=ok_f, scalars_ok=True, steps=p.steps))
            elif kind == 'load':
                sd = copy.deepcopy(p.state_dict())
                for m in model.modules():
                    for d in (m._forward_pre_hooks, m._backward_hooks):
                        for k_, h_ in list(d.items()):
                            if getattr(h_, '__self__', None) is p:
                                del d[k_]
                want = copy.deepcopy(sd)
                p, kw = precond(model, spec, world)
                p.load_state_dict(sd, compute_inverses=ev[1])
                got = p.state_dict()
                ok_f = all(((want['layers'][n][f] is None) == (got['layers'][n][f] is None)) and
                           (want['layers'][n][f] is None or (got['layers'][n][f].dtype == want['layers'][n][f].dtype and torch.equal(got['layers'][n][f], want['layers'][n][f])))
                           for n in want['layers'] for f in ('A', 'G'))
                ok_s = all(got.get(k_) == v_ for k_, v_ in want.items() if k_ != 'layers') and set(got) == set(want)
                rec.setdefault('loads', []).append(dict(event=ei, factors_ok=ok_f, scalars_ok=ok_s, steps=p.steps))
            else:
                raise ValueError(kind)
        rec['final_steps'] = p.steps
        rec['layer_names'] = list(layers)
        rec['layer_shapes'] = {n: (tuple(l.module.a_factor_shape), tuple(l.module.g_factor_shape)) for n, l in p._layers.values()}
        rec['grad_numel'] = {n: int(rm.combined_grad(m).numel()) if m.weight.grad is not None else 0 for n, m in layers.items()}
        return rec
    return fn


def run(spec, world, seed=0, policy='random', stress=False, deliver_prob=0.6):
    return simdist.run_world(world, rank_fn(spec), seed=seed, policy=policy, stress=stress, deliver_prob=deliver_prob)


def divisors(n):
    return [d for d in range(1, n + 1) if n % d == 0]
