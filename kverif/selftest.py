"""setup_cmd: checks that the environment can run the checks (offline, nothing to build)."""
import sys


def main() -> int:
    from kverif.common import import_kfac

    kfac = import_kfac()
    import torch

    print('kverif selftest: kfac from', kfac.__file__, 'torch', torch.__version__)
    return 0


if __name__ == '__main__':
    sys.exit(main())
