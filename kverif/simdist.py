"""simdist - N ranks as N threads on a Python c10d backend with asynchronous
completion, a controlled cooperative scheduler and online collective monitors.

The real torch.distributed front-end is used unchanged (init_process_group,
new_group, all_reduce(async_op=True).get_future(), broadcast, all_gather,
reduce_scatter, all_gather_object, barrier, get_rank/get_world_size(group)).
See DESIGN.md section 2.1.
"""
from __future__ import annotations

import collections
import random
import sys
import threading
import time
import traceback

import torch
import torch.distributed as dist
from torch.futures import Future
from torch.testing._internal.distributed.multi_threaded_pg import ThreadLocalWorld

from kverif.common import stable_hash

POLICIES = ['random', 'round_robin', 'rank_priority', 'reverse_priority', 'pct', 'one_straggler', 'run_to_block']

_tls = threading.local()
_install_lock = threading.Lock()
_installed = False


class SimAbort(BaseException):
    """Raised inside rank threads to unwind them after a stall / abort (not an Exception on purpose)."""


def current() -> 'World':
    return _tls.world


def my_rank() -> int:
    return _tls.rank


class harness:
    """Collectives issued inside this context are the harness's own (e.g. DDP emulation)."""

    def __enter__(self):
        self.old = getattr(_tls, 'harness', False)
        _tls.harness = True

    def __exit__(self, *a):
        _tls.harness = self.old


def phase(label) -> None:
    w = getattr(_tls, 'world', None)
    if w is not None:
        w.phase[_tls.rank] = label


# ------------------------------------------------------------------ scheduler
class Sched:
    def __init__(self, n, policy, rng):
        self.n = n
        self.policy = policy
        self.rng = rng
        self.cv = threading.Condition()
        self.current = None
        self.state = ['ready'] * n  # ready / blocked / finishing / done
        self.pending = [collections.deque() for _ in range(n)]
        self.stalled = None
        self.abort = False
        self.decisions: list[int] = []
        self.prio = list(range(n))
        rng.shuffle(self.prio)
        self.change_points = sorted(rng.sample(range(1, 400), 3)) if policy == 'pct' else []
        self.straggler = rng.randrange(n)
        self.last = -1

    def runnable(self):
        return [r for r in range(self.n)
                if self.state[r] == 'ready' or (self.state[r] in ('blocked', 'finishing') and self.pending[r])]

    def _choose(self, rs):
        p = self.policy
        if p == 'random':
            return self.rng.choice(rs)
        if p == 'round_robin':
            for d in range(1, self.n + 1):
                c = (self.last + d) % self.n
                if c in rs:
                    return c
        if p == 'rank_priority':
            return min(rs)
        if p == 'reverse_priority':
            return max(rs)
        if p == 'pct':
            if self.change_points and len(self.decisions) >= self.change_points[0]:
                self.change_points.pop(0)
                if self.last in self.prio:
                    self.prio.remove(self.last)
                    self.prio.append(self.last)
            return min(rs, key=self.prio.index)
        if p == 'one_straggler':
            others = [r for r in rs if r != self.straggler]
            return self.rng.choice(others) if others else rs[0]
        if p == 'run_to_block':
            return self.last if self.last in rs else self.rng.choice(rs)
        raise ValueError(p)

    def pick(self):
        """cv must be held."""
        rs = self.runnable()
        if not rs:
            if all(s in ('finishing', 'done') for s in self.state):
                self.current = None  # everybody may leave
                for r in range(self.n):
                    self.state[r] = 'done'
            else:
                self.stalled = list(self.state)
                self.current = -1
            self.cv.notify_all()
            return
        self.current = self._choose(rs)
        self.last = self.current
        self.decisions.append(self.current)
        self.cv.notify_all()

    def _wait_turn(self, r):
        while self.current != r:
            if self.abort or self.current == -1:
                raise SimAbort()
            if self.state[r] == 'done':
                return
            self.cv.wait(1.0)

    def start(self, r):
        with self.cv:
            self._wait_turn(r)

    def yield_(self, r, state='ready'):
        with self.cv:
            if self.abort:
                raise SimAbort()
            self.state[r] = state
            self.pick()
            self._wait_turn(r)
            if self.state[r] != 'done':
                self.state[r] = 'ready' if state != 'finishing' else 'finishing'

    def leave(self, r):
        """Thread exits abnormally (after abort)."""
        with self.cv:
            self.state[r] = 'done'
            if self.current == r:
                self.pick()


# ------------------------------------------------------------------ world
class Op:
    __slots__ = ('kind', 'rank', 'data', 'meta', 'fut', 'idx', 'group', 'matched', 'delivered', 'harness')

    def __init__(self, kind, rank, data, meta, group, idx, harness_):
        self.kind = kind
        self.rank = rank
        self.data = data
        self.meta = meta
        self.fut = Future()
        self.idx = idx
        self.group = group
        self.matched = False
        self.delivered = False
        self.harness = harness_


class GroupState:
    def __init__(self, name, ranks):
        self.name = name
        self.ranks = list(ranks)
        self.queues = {r: [] for r in ranks}
        self.matched = 0


class World:
    def __init__(self, n, seed, policy, deliver_prob, stress):
        self.n = n
        self.rng = random.Random(seed)
        self.sched = Sched(n, policy, random.Random(seed * 7919 + 13))
        self.policy = policy
        self.deliver_prob = deliver_prob
        self.stress = stress
        self.groups: dict[str, GroupState] = {}
        self.trace: list[dict] = []
        self.newgroups = {r: [] for r in range(n)}
        self.monitor: list[str] = []
        self.phase = {r: None for r in range(n)}
        self.delivering = [False] * n
        self.ops_by_rank = {r: [] for r in range(n)}
        self.notingroup = []
        self.line_events = 0
        self.line_deliveries = 0
        self.line_sites: set = set()
        self.matched_collectives = 0

    def issued_by(self, rank) -> int:
        return sum(1 for o in self.ops_by_rank[rank] if not o.harness)

    def group_state(self, name, ranks):
        g = self.groups.get(name)
        if g is None:
            g = self.groups[name] = GroupState(name, ranks)
        elif g.ranks != list(ranks):
            self.monitor.append(f'M3 process group with creation index {name} has members {g.ranks} on some ranks and {list(ranks)} on others')
            alt = f'{name}#{list(ranks)}'
            g = self.groups.get(alt) or self.groups.setdefault(alt, GroupState(alt, ranks))
        return g


def deliver(world: World, r: int, force=True, until=None):
    """Deliver queued completions of rank r on r's own thread (never nested), in FIFO order.
    `until`: stop as soon as that future is done (only the prefix the waiter needs; the rest stays pending longer)."""
    if world.delivering[r]:
        return 0
    q = world.sched.pending[r]
    if not q:
        return 0
    if not force and world.rng.random() > world.deliver_prob:
        return 0
    world.delivering[r] = True
    n = 0
    try:
        while q:
            if until is not None and until.done():
                break
            op, writes, result = q.popleft()
            with torch.no_grad():
                for dst, src in writes:
                    dst.copy_(src)
            op.delivered = True
            n += 1
            op.fut.set_result(result)
    finally:
        world.delivering[r] = False
    return n


_orig_wait = torch._C.Future.wait


def sim_wait(fut):
    world = getattr(_tls, 'world', None)
    if world is None:
        return _orig_wait(fut)
    r = _tls.rank
    if world.delivering[r] and not fut.done():
        # a callback waits on another communication result: deliver is not re-entrant; report.
        world.monitor.append(f'rank {r}: a completion callback blocks on another unfinished future')
        raise SimAbort()
    prefix_only = world.rng.random() < 0.5   # deliver everything queued, or only the prefix up to the awaited completion
    while True:
        deliver(world, r, until=(fut if prefix_only else None))
        if fut.done():
            break
        world.sched.yield_(r, 'blocked')
    return _orig_wait(fut)


class SimWork(dist.Work):
    def __init__(self, world, op):
        super().__init__()
        self.world = world
        self.op = op

    def wait(self, timeout=None):
        sim_wait(self.op.fut)
        return True

    def get_future(self):
        return self.op.fut

    def is_completed(self):
        return self.op.fut.done()

    def is_success(self):
        return True

    def result(self):
        return self.op.fut.value()


def _meta_t(t):
    return (tuple(t.shape), str(t.dtype))


class SimPG(dist.ProcessGroup):
    def __init__(self, world, name, ranks, grank):
        super().__init__(list(ranks).index(grank), len(ranks))
        self.w = world
        self.name = name
        self.ranks = list(ranks)
        self.grank = grank
        self.gs = world.group_state(name, ranks)

    def size(self):
        return len(self.ranks)

    def rank(self):
        return self.ranks.index(self.grank)

    def getBackendName(self):
        return 'sim'

    @property
    def group_name(self):
        return self.name

    def new_group(self, ranks, timeout=None, backend=None, pg_options=None, group_name=None, group_desc=None):
        w, r = self.w, self.grank
        ranks = list(ranks)
        w.newgroups[r].append((str(group_name), tuple(ranks)))
        w.trace.append(dict(seq=len(w.trace), rank=r, phase=w.phase[r], kind='new_group', group=str(group_name),
                            group_ranks=tuple(ranks), harness=getattr(_tls, 'harness', False), backend=str(backend)))
        w.sched.yield_(r)
        if r not in ranks:
            return None
        return SimPG(w, 'g' + str(group_name), ranks, r)

    # -- issue / match -----------------------------------------------------
    def _issue(self, kind, data, meta, root=None):
        w, r = self.w, self.grank
        w.sched.yield_(r)
        gs = self.gs
        hz = getattr(_tls, 'harness', False)
        op = Op(kind, r, data, meta, gs.name, len(gs.queues[r]), hz)
        gs.queues[r].append(op)
        w.ops_by_rank[r].append(op)
        shape, dtype = (meta[0], meta[1]) if meta else (None, None)
        numel = 1
        for s in (shape or ()):
            numel *= s
        w.trace.append(dict(seq=len(w.trace), rank=r, phase=w.phase[r], kind=kind, group=gs.name, group_ranks=tuple(self.ranks),
                            numel=numel, shape=shape, dtype=dtype, root=(None if root is None else self.ranks[root]),
                            harness=hz, opidx=op.idx))
        k = gs.matched
        while all(len(gs.queues[x]) > k for x in self.ranks):
            ops = [gs.queues[x][k] for x in self.ranks]
            if not self._complete(ops):
                break
            k += 1
            w.matched_collectives += 1
        gs.matched = k
        deliver(w, r, force=False)
        return SimWork(w, op)

    @torch.no_grad()
    def _complete(self, ops):
        w = self.w
        metas = {(o.kind, o.meta) for o in ops}
        if len(metas) != 1:
            w.monitor.append('M2 mismatched collective on group %s (members %s), position %d: %s' % (
                self.gs.name, self.ranks, ops[0].idx, [(o.rank, o.kind, o.meta) for o in ops]))
            w.sched.abort = True
            return False
        kind = ops[0].kind
        pend = w.sched.pending
        if kind == 'allreduce':
            tot = ops[0].data[0].clone()
            for o in ops[1:]:
                tot += o.data[0]
            for o in ops:
                o.matched = True
                pend[o.rank].append((o, [(o.data[0], tot)], o.data))
        elif kind == 'broadcast':
            root = ops[0].meta[2]
            src = ops[root].data[0].clone()
            for i, o in enumerate(ops):
                o.matched = True
                pend[o.rank].append((o, [] if i == root else [(o.data[0], src)], o.data))
        elif kind == 'allgather':
            ins = [o.data[1][0].clone() for o in ops]
            for o in ops:
                o.matched = True
                outs = o.data[0]
                pend[o.rank].append((o, [(outs[0][i], ins[i]) for i in range(len(ops))], outs))
        elif kind == 'reduce_scatter':
            for i, o in enumerate(ops):
                tot = ops[0].data[1][0][i].clone()
                for oo in ops[1:]:
                    tot += oo.data[1][0][i]
                o.matched = True
                pend[o.rank].append((o, [(o.data[0][0], tot)], o.data[0]))
        elif kind == 'barrier':
            for o in ops:
                o.matched = True
                pend[o.rank].append((o, [], []))
        else:  # pragma: no cover
            raise NotImplementedError(kind)
        return True

    def _redop(self, opts):
        for name in ('SUM', 'AVG', 'MAX', 'MIN', 'PRODUCT'):
            try:
                if opts.reduceOp == getattr(dist.ReduceOp, name):
                    return name
            except Exception:  # pragma: no cover
                pass
        return 'OTHER'

    def allreduce(self, tensors, opts=None):
        t = tensors[0]
        op = self._redop(opts)
        if op != 'SUM':
            self.w.monitor.append(f'rank {self.grank}: unsupported reduce op {op} in simulator')
        return self._issue('allreduce', tensors, _meta_t(t) + (op,))

    def broadcast(self, tensors, opts=None):
        t = tensors[0]
        return self._issue('broadcast', tensors, _meta_t(t) + (int(opts.rootRank),), root=int(opts.rootRank))

    def allgather(self, outs, ins, opts=None):
        t = ins[0]
        return self._issue('allgather', (outs, ins), _meta_t(t) + (len(outs[0]),))

    def reduce_scatter(self, outs, ins, opts=None):
        t = outs[0]
        return self._issue('reduce_scatter', (outs, ins), _meta_t(t) + (self._redop(opts),))

    def barrier(self, opts=None):
        return self._issue('barrier', None, ((), 'barrier', 0))


# ------------------------------------------------------------------ line-level stress
_MON_TOOL = 4
_mon_state = {'on': False, 'prefix': None}


def _line_cb(code, line):
    w = getattr(_tls, 'world', None)
    if w is None or not w.stress:
        return None
    fn = code.co_filename
    if not fn.startswith(_mon_state['prefix']):
        return sys.monitoring.DISABLE
    r = _tls.rank
    w.line_events += 1
    if w.sched.pending[r] and not w.delivering[r] and w.rng.random() < 0.05:
        w.line_sites.add((fn[len(_mon_state['prefix']):], line))
        w.line_deliveries += deliver(w, r)
    return None


def _enable_line_stress(prefix):
    mon = sys.monitoring
    if not _mon_state['on']:
        mon.use_tool_id(_MON_TOOL, 'kverif-simdist')
        mon.register_callback(_MON_TOOL, mon.events.LINE, _line_cb)
        _mon_state['on'] = True
    _mon_state['prefix'] = prefix
    mon.restart_events()
    mon.set_events(_MON_TOOL, mon.events.LINE)


def _disable_line_stress():
    if _mon_state['on']:
        sys.monitoring.set_events(_MON_TOOL, 0)


# ------------------------------------------------------------------ run
class Run:
    def __init__(self, world, results, errors, inconclusive):
        self.world = world
        self.results = results
        self.errors = errors
        self.inconclusive = inconclusive
        self.trace = world.trace
        self.monitor = list(world.monitor)
        self.stall = None
        self._finalize()

    def _finalize(self):
        w = self.world
        if w.sched.stalled is not None:
            lines = []
            for r, st in enumerate(w.sched.stalled):
                if st == 'blocked':
                    un = [o for o in w.ops_by_rank[r] if not o.matched]
                    if un:
                        o = un[0]
                        lines.append(f'rank {r} blocked; its {o.kind} #{o.idx} on group {o.group} {w.groups[o.group].ranks if o.group in w.groups else ""} was never matched by all members')
                    else:
                        lines.append(f'rank {r} blocked on a future that no issued operation feeds (e.g. an unflushed bucket)')
                else:
                    lines.append(f'rank {r} {st}')
            self.stall = 'STALL: no runnable rank; ' + '; '.join(lines)
        # M3: identical new_group sequences on all ranks
        seqs = w.newgroups
        if not any(self.errors) and self.stall is None:
            base = seqs[0]
            for r in range(1, w.n):
                if seqs[r] != base:
                    k = next((i for i, (a, b) in enumerate(zip(seqs[r], base)) if a != b), min(len(seqs[r]), len(base)))
                    a = base[k] if k < len(base) else None
                    b = seqs[r][k] if k < len(seqs[r]) else None
                    self.monitor.append(f'M3 new_group call #{k} differs: rank 0 {a} vs rank {r} {b}')
                    break
        else:
            # still report group-membership disagreements for equal creation indices
            byname = {}
            for r in range(w.n):
                for nm, rk in seqs[r]:
                    byname.setdefault(nm, set()).add(rk)
            for nm, s in byname.items():
                if len(s) > 1 and not any('creation index ' + nm in m for m in self.monitor):
                    self.monitor.append(f'M3 process group with creation index {nm} has different members on different ranks: {sorted(s)}')
        # M4: everything matched, delivered, nothing pending
        if not any(self.errors) and self.stall is None and not self.inconclusive:
            for g in w.groups.values():
                lens = {r: len(q) for r, q in g.queues.items()}
                if any(v != g.matched for v in lens.values()):
                    self.monitor.append(f'M4 group {g.name} {g.ranks}: issued per rank {lens}, matched {g.matched} (some operations never completed)')
            for r in range(w.n):
                if w.sched.pending[r]:
                    self.monitor.append(f'M4 rank {r} left {len(w.sched.pending[r])} completions undelivered')
                for o in w.ops_by_rank[r]:
                    if o.matched and not o.fut.done():
                        self.monitor.append(f'M4 rank {r}: future of {o.kind} #{o.idx} on {o.group} never completed')
                        break
        for (r, opname) in w.notingroup:
            self.monitor.append(f'M1 rank {r} called {opname} on a group it does not belong to')

    def failed(self) -> bool:
        return bool(any(self.errors) or self.stall or self.monitor)

    def failure_summary(self, limit=1500) -> str:
        parts = []
        for m in self.monitor[:4]:
            parts.append(m)
        for r, e in enumerate(self.errors):
            if e and 'SimAbort' not in e.splitlines()[-1]:
                ls = e.strip().splitlines()
                fi = max([i for i, l in enumerate(ls) if l.startswith('  File ')] or [0])
                parts.append(f'rank {r} raised: ' + ' | '.join(x.strip() for x in ls[fi:fi + 4]))
                if len(parts) > 5:
                    break
        if self.stall:
            parts.append(self.stall)
        if not parts:
            parts = [e.strip().splitlines()[-1] for e in self.errors if e][:2]
        return (' || '.join(parts))[:limit]

    def first_exception(self):
        for r, e in enumerate(self.errors):
            if e and 'SimAbort' not in e.splitlines()[-1]:
                return r, e
        return None, None

    def schedule_hash(self) -> str:
        return stable_hash(self.world.sched.decisions)

    def issue_order_hash(self) -> str:
        return stable_hash([(e['rank'], e['kind'], e['group']) for e in self.trace])

    def events(self, harness_=False):
        return [e for e in self.trace if e.get('harness', False) == harness_]

    def per_rank_group_sequence(self):
        """{(rank, group): [(kind, shape, dtype, root)]} of non-harness ops."""
        out = {}
        for e in self.trace:
            if e['kind'] == 'new_group' or e.get('harness'):
                continue
            out.setdefault((e['rank'], e['group']), []).append((e['kind'], e['shape'], e['dtype'], e['root']))
        return out


def _install():
    global _installed
    with _install_lock:
        if _installed:
            return
        torch._C.Future.wait = sim_wait

        def creator(store, rank, size, timeout):
            return SimPG(_tls.world, 'world', list(range(size)), rank)

        dist.Backend.register_backend('sim', creator, devices=['cpu'])
        import torch.distributed.distributed_c10d as c10d
        orig_warn = c10d._warn_not_in_group

        def warn(op_name):
            w = getattr(_tls, 'world', None)
            if w is not None:
                w.notingroup.append((_tls.rank, op_name))
            return orig_warn(op_name)

        c10d._warn_not_in_group = warn
        _installed = True


def run_world(n, fn, seed=0, policy='random', deliver_prob=0.6, stress=False, watchdog_s=180.0) -> Run:
    """Run fn(rank, world_size) on n simulated ranks. Never raises for rank failures."""
    _install()
    import torch.distributed.distributed_c10d as c10d

    world = World(n, seed, policy, deliver_prob, stress)
    results = [None] * n
    errors = [None] * n
    old_world = c10d._world
    old_hook = sys.excepthook
    c10d._world = ThreadLocalWorld()
    torch._C._distributed_c10d._set_thread_isolation_mode(True)
    mt = torch.autograd.set_multithreading_enabled(False)
    store = dist.HashStore()
    if stress:
        import kfac
        import os
        _enable_line_stress(os.path.dirname(os.path.abspath(kfac.__file__)) + os.sep)

    def body(r):
        _tls.world = world
        _tls.rank = r
        _tls.harness = False
        try:
            world.sched.start(r)
            dist.init_process_group('sim', rank=r, world_size=n, store=store)
            results[r] = fn(r, n)
            # finishing protocol: keep delivering until every rank has finished
            while True:
                deliver(world, r)
                world.sched.yield_(r, 'finishing')
                if world.sched.state[r] == 'done':
                    break
        except SimAbort:
            errors[r] = errors[r] or 'SimAbort'
        except BaseException as e:  # noqa: BLE001
            errors[r] = ''.join(traceback.format_exception(e))
            try:
                # the failed rank stops issuing; the others will stall and be reported
                while True:
                    deliver(world, r)
                    world.sched.yield_(r, 'finishing')
                    if world.sched.state[r] == 'done':
                        break
            except BaseException:  # noqa: BLE001
                pass
        finally:
            try:
                dist.destroy_process_group()
            except BaseException:  # noqa: BLE001
                pass
            world.sched.leave(r)
            _tls.world = None

    ths = [threading.Thread(target=body, args=(r,), daemon=True) for r in range(n)]
    with world.sched.cv:
        world.sched.pick()
    for t in ths:
        t.start()
    t_end = time.time() + watchdog_s
    inconclusive = None
    for t in ths:
        t.join(max(0.1, t_end - time.time()))
    if any(t.is_alive() for t in ths):
        inconclusive = f'watchdog of {watchdog_s}s fired'
        with world.sched.cv:
            world.sched.abort = True
            world.sched.cv.notify_all()
        for t in ths:
            t.join(5)
    if stress:
        _disable_line_stress()
    c10d._world = old_world
    torch._C._distributed_c10d._set_thread_isolation_mode(False)
    mt.__exit__(None, None, None)
    sys.excepthook = old_hook
    return Run(world, results, errors, inconclusive)


def allreduce_mean_grads(params, group=None, size=None):
    """Harness-side emulation of DDP gradient averaging."""
    with harness():
        for p in params:
            if p.grad is not None:
                dist.all_reduce(p.grad, group=group)
                p.grad /= (size if size is not None else dist.get_world_size(group))
