"""Runs one shard of one property in its own interpreter."""
from __future__ import annotations

import faulthandler
import json
import sys
import traceback
import warnings


def main() -> int:
    pid, specfile, outfile = sys.argv[1:4]
    faulthandler.enable()
    warnings.simplefilter('ignore')
    with open(specfile) as f:
        spec = json.load(f)
    from kverif.common import Result, import_kfac
    from kverif.driver import load_prop

    import_kfac()
    mod = load_prop(pid)
    res = Result()
    try:
        mod.run_shard(spec, res)
    except BaseException:
        tb = traceback.format_exc()
        from kverif.common import REPO
        if (REPO.rstrip('/') + '/kfac/') in tb:
            # the code under test raised during a use the workload considers valid (and the check did not classify it itself):
            # the guarantee was not delivered - a violation candidate, replayable by re-running this shard
            ls = tb.strip().splitlines()
            fi = max([i for i, l in enumerate(ls) if l.startswith('  File ')] or [0])
            res.violation('a valid use raised inside kfac (not classified by the check): ' + ' | '.join(x.strip() for x in ls[fi:fi + 4]), dict(shard_spec=spec))
        else:  # harness failure: inconclusive, never a verdict
            res.inconclusive.append('harness error in shard %s: %s' % (spec.get('shard'), tb[-1500:]))
    with open(outfile, 'w') as f:
        json.dump(res.to_json(), f)
    return 0


if __name__ == '__main__':
    sys.exit(main())
