import sys, warnings, random, copy
warnings.simplefilter('ignore')
sys.path.insert(0, '/repo')
import torch, torch.distributed as dist
import sim
from kfac.preconditioner import KFACPreconditioner
torch.set_num_threads(1)
def mk():
    g = torch.Generator().manual_seed(3)
    m = torch.nn.Sequential(torch.nn.Conv2d(1, 2, 2), torch.nn.Tanh(), torch.nn.Flatten(), torch.nn.Linear(2 * 3 * 3, 5), torch.nn.Tanh(), torch.nn.Linear(5, 3, bias=False)).double()
    with torch.no_grad():
        for p in m.parameters(): p.copy_(torch.randn(p.shape, generator=g, dtype=torch.float64) * 0.5)
    return m
def run(rank, n, cfg, hist):
    kw = dict(factor_update_steps=cfg['F'], inv_update_steps=cfg['I'], damping=0.05, compute_method=cfg['method'], compute_eigenvalue_outer_product=cfg['prediv'],
              grad_worker_fraction=cfg['k'] / n, allreduce_bucket_cap_mb=cfg['cap'], symmetry_aware=cfg['sym'], update_factors_in_hook=cfg['hook'], accumulation_steps=cfg['acc'],
              colocate_factors=cfg['coloc'])
    model = mk(); p = KFACPreconditioner(model, **kw)
    gen = torch.Generator().manual_seed(50 + rank)
    for ev, arg in hist:
        if ev == 'train':
            model.zero_grad()
            for _ in range(cfg['acc']):
                model(torch.randn(3, 1, 4, 4, generator=gen, dtype=torch.float64)).pow(2).mean().backward()
            for q in model.parameters(): dist.all_reduce(q.grad); q.grad /= n
            p.step()
        elif ev == 'eval':
            model.eval(); model(torch.randn(3, 1, 4, 4, generator=gen, dtype=torch.float64)).sum().backward(); model.train()
        elif ev == 'sd' and rank in arg: p.state_dict()
        elif ev == 'mem' and rank in arg: p.memory_usage()
        elif ev == 'load':
            sd = copy.deepcopy(p.state_dict()); model2 = mk(); model2.load_state_dict(model.state_dict()); model = model2
            p = KFACPreconditioner(model, **kw); p.load_state_dict(sd, compute_inverses=arg)
        elif ev == 'reset': p.reset_batch()
    return p.steps
rng = random.Random(7); ok = 0; skipped = 0; problems = 0; kinds = set()
for trial in range(120):
    n = rng.choice([1, 2, 3, 4, 6]); k = rng.choice([d for d in range(1, n + 1) if n % d == 0])
    method = rng.choice(['eigen', 'inverse']); prediv = rng.choice([True, False]); coloc = rng.choice([True, False]) or (method == 'eigen' and prediv)
    cfg = dict(F=rng.choice([1, 2, 3, (lambda s: 1 + s % 3)]), I=rng.choice([1, 2, 3, (lambda s: 1 + s % 2)]), method=method, prediv=prediv, k=k, cap=rng.choice([0, 1e-6, 0.0005, 25]),
               sym=rng.random() < .5, hook=rng.random() < .5, acc=rng.choice([1, 2]), coloc=coloc)
    hybrid = 1 < k < n
    hist = []
    for _ in range(rng.randint(3, 9)):
        e = rng.choice(['train', 'train', 'train', 'eval', 'sd', 'mem', 'load', 'reset'])
        if e == 'load' and hybrid: skipped += 1; continue      # F2
        if e in ('sd', 'mem'): hist.append((e, set(r for r in range(n) if rng.random() < .6)))
        elif e == 'load': hist.append((e, True))
        else: hist.append((e, None))
    hist.insert(0, ('train', None))
    w, res, err = sim.run_world(n, lambda r, nn: run(r, nn, cfg, hist), seed=trial)
    kinds |= {t[1] for t in w.trace}
    if any(err) or w.sched.deadlock:
        problems += 1; print("PROBLEM", n, k, {kk: (vv if not callable(vv) else 'fn') for kk, vv in cfg.items()}, [h[0] for h in hist]); print([e for e in err if e][0][-700:]); break
    # all groups fully matched?
    for name, g in w.groups.items():
        assert all(len(q) == g['matched'] for q in g['queues'].values()), (name, {r: len(q) for r, q in g['queues'].items()}, g['matched'])
    ok += 1
print("ok", ok, "problems", problems, "skipped hybrid loads", skipped, "kinds", kinds)
