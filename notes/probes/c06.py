import sys, warnings, random
warnings.simplefilter('ignore')
sys.path.insert(0, '/repo')
from kfac.assignment import KAISAAssignment
rng = random.Random(0)
bad = []; n = 0
for W in list(range(1, 41)) + [98]:
    for k in [d for d in range(1, W + 1) if W % d == 0]:
        for coloc in [True, False]:
            for fam in range(3):
                L = rng.choice([1, 2, W - 1 or 1, W, W + 1, 2 * W + 1]) if fam else 3
                if fam == 0: work = {f'l{i}': {'A': 1, 'G': 1} for i in range(L)}
                elif fam == 1: work = {f'l{i}': {'A': rng.choice([0, 1, 2]), 'G': rng.choice([0, 1, 2])} for i in range(L)}
                else: work = {f'l{i}': {'A': rng.random() * 100, 'G': rng.random()} for i in range(L)}
                calls = {}
                try:
                    As = []
                    for r in range(W):
                        calls[r] = []
                        As.append(KAISAAssignment(work, local_rank=r, world_size=W, grad_worker_fraction=k / W, group_func=lambda x, r=r: (calls[r].append(tuple(x)), tuple(sorted(x)))[1], colocate_factors=coloc))
                except ValueError as e:
                    bad.append(('reject', W, k)); continue
                n += 1
                p = W // k
                cols = [set(range(i, W, p)) for i in range(p)]; rows = [set(range(i * p, i * p + p)) for i in range(k)]
                ok = all(calls[r] == calls[0] for r in range(W))
                for l in work:
                    inv = {f: {a.inv_worker(l, f) for a in As} for f in work[l]}
                    ok &= all(len(v) == 1 for v in inv.values())
                    invs = {next(iter(v)) for v in inv.values()}
                    col = [c for c in cols if invs <= c]
                    ok &= len(col) == 1
                    if coloc: ok &= len(invs) == 1
                    if not col: continue
                    for r, a in enumerate(As):
                        ok &= a.is_grad_worker(l) == (r in col[0])
                        src = a.src_grad_worker(l); row = [x for x in rows if r in x][0]
                        ok &= src in row and src in col[0] and (src == r) == (r in col[0])
                        ok &= a.grad_worker_group(l) == tuple(sorted(col[0])) and a.grad_receiver_group(l) == tuple(sorted(row))
                ok &= all(a.broadcast_gradients() == (k < W) and a.broadcast_inverses() == (k > 1) for a in As)
                if not ok: bad.append(('rel', W, k, coloc, fam))
print("configs checked", n, "problems", sorted(set(bad))[:10])
