import sys, warnings, random, math
warnings.simplefilter('ignore')
sys.path.insert(0, '/repo')
import torch, torch.distributed as dist
import sim
from kfac.distributed import TorchDistributedCommunicator
torch.set_num_threads(1)

def make_plan(seed):
    rng = random.Random(seed)
    n = rng.choice([2, 3, 4])
    cap_bytes = rng.choice([1, 40, 200, 1000, 10**7])
    cycles = []; DT = rng.choice(['float32', 'float64'])
    for c in range(rng.randint(1, 3)):
        items = []
        for t in range(rng.randint(1, 8)):
            sym = rng.random() < .3
            if sym: k = rng.randint(1, 6); shape = (k, k)
            else: shape = tuple(rng.randint(1, 5) for _ in range(rng.randint(1, 3)))
            items.append(dict(shape=shape, sym=sym, avg=rng.random() < .5, dtype=DT))
        cycles.append(items)
    return n, cap_bytes, cycles

def data(rank, ci, ti, item):
    g = torch.Generator().manual_seed(1000 * ci + 10 * ti + rank)
    t = torch.randint(-50, 50, item['shape'], generator=g).to(getattr(torch, item['dtype']))
    if item['sym']: t = t + t.t()
    return t

def fn(rank, n, cap_bytes, cycles):
    comm = TorchDistributedCommunicator(bucket_cap_mb=cap_bytes / 1e6)
    out = []
    for ci, items in enumerate(cycles):
        sim._tls.world.trace.append((rank, 'MARK', ci, None))
        futs = [comm.allreduce_bucketed(data(rank, ci, ti, it), average=it['avg'], symmetric=it['sym']) for ti, it in enumerate(items)]
        comm.flush_allreduce_buckets()
        before = len(sim._tls.world.trace)
        comm.flush_allreduce_buckets()
        out.append([f.wait() if not isinstance(f, torch.Tensor) else f for f in futs])
    return out

bad = 0; runs = 0; multi = 0
for seed in range(300):
    n, cap, cycles = make_plan(seed)
    w, res, err = sim.run_world(n, lambda r, nn: fn(r, nn, cap, cycles), seed=seed)
    if any(err): print("ERR", seed, [e for e in err if e][0][-600:]); bad += 1; continue
    runs += 1
    for ci, items in enumerate(cycles):
        for ti, it in enumerate(items):
            exp = sum(data(r, ci, ti, it) for r in range(n))
            if it['avg']: exp = (1 / n) * exp
            for r in range(n):
                got = res[r][ci][ti]
                if got.shape != exp.shape or got.dtype != exp.dtype or not torch.equal(got, exp): bad += 1; print("VALUE MISMATCH", seed, ci, ti, r)
    # segmentation per rank
    for r in range(n):
        ci = -1; ops = {}
        for t in w.trace:
            if t[0] != r: continue
            if t[1] == 'MARK': ci = t[2]; continue
            if t[1] == 'allreduce': ops.setdefault(ci, []).append((math.prod(t[3][0]), t[3][1]))
        for ci_, items in enumerate(cycles):
            sub = []
            for it in items:
                k = it['shape'][0]
                numel = k * (k + 1) // 2 if it['sym'] else math.prod(it['shape'])
                sub.append((numel, numel * (4 if it['dtype'] == 'float32' else 8)))
            got = ops.get(ci_, [])
            # greedy segmentation expected: contiguous, sum match, cap rule
            i = 0; ok = True
            for numel, dt in got:
                acc = 0; cnt = 0; byt = 0
                while i < len(sub) and acc < numel:
                    acc += sub[i][0]; byt += sub[i][1]; cnt += 1; i += 1
                if acc != numel or (byt > cap and cnt > 1): ok = False
                if cnt > 1: multi += 1
            if i != len(sub): ok = False
            if not ok: bad += 1; print("SEGMENT", seed, r, ci_, got, sub, cap)
print("runs", runs, "bad", bad, "multi-tensor buckets seen", multi)

