import sys, warnings, random, copy
warnings.simplefilter('ignore')
sys.path.insert(0, '/repo')
import torch, torch.distributed as dist
import sim
from kfac.preconditioner import KFACPreconditioner
torch.set_num_threads(1)

def mk():
    g = torch.Generator().manual_seed(3)
    m = torch.nn.Sequential(torch.nn.Linear(4, 5), torch.nn.Tanh(), torch.nn.Linear(5, 3, bias=False)).double()
    with torch.no_grad():
        for p in m.parameters(): p.copy_(torch.randn(p.shape, generator=g, dtype=torch.float64) * 0.5)
    return m

def run(rank, n, cfg, ckpt, T):
    model = mk(); kw = dict(factor_update_steps=cfg['F'], inv_update_steps=cfg['I'], damping=0.05, compute_method=cfg['method'], compute_eigenvalue_outer_product=cfg['prediv'],
                           grad_worker_fraction=cfg['k'] / n, allreduce_bucket_cap_mb=cfg['cap'], kl_clip=1e-3, lr=0.1)
    p = KFACPreconditioner(model, **kw)
    opt = torch.optim.SGD(model.parameters(), lr=0.05)
    gen = torch.Generator().manual_seed(50 + rank)
    outs = []; info = {}
    for it in range(T):
        if it == ckpt:
            sd = copy.deepcopy(p.state_dict()); msd = copy.deepcopy(model.state_dict())
            model = mk(); model.load_state_dict(msd)
            p2 = KFACPreconditioner(model, **kw); p2.load_state_dict(sd)
            sd2 = p2.state_dict()
            info['restored'] = sd2['steps'] == sd['steps'] and all(torch.equal(sd['layers'][l][f], sd2['layers'][l][f]) for l in sd['layers'] for f in 'AG') and all(sd[k] == sd2[k] for k in sd if k != 'layers')
            p = p2; opt = torch.optim.SGD(model.parameters(), lr=0.05)
        x = torch.randn(4, 4, generator=gen, dtype=torch.float64)
        opt.zero_grad(); model(x).pow(2).mean().backward()
        if n > 1:
            for q in model.parameters(): dist.all_reduce(q.grad); q.grad /= n
        p.step(); outs.append(torch.cat([q.grad.flatten() for q in model.parameters()]).clone()); opt.step()
    return outs, info

rng = random.Random(1)
stats = {'eq_expected_and_eq': 0, 'eq_expected_but_diff': 0, 'diff_allowed': 0, 'diff_allowed_but_eq': 0, 'restore_bad': 0}
for trial in range(12):
    n = rng.choice([1, 2, 4]); k = rng.choice([d for d in (1, 2, 4) if n % d == 0 and d <= n])
    cfg = dict(F=rng.choice([1, 2, 3]), I=rng.choice([1, 2, 3, 4]), method=rng.choice(['eigen', 'inverse']), prediv=rng.choice([True, False]), k=k, cap=rng.choice([0, 25]))
    if n == 4 and k == 2: continue   # F2 (HYBRID load) known defect
    T = 7
    w, base, err = sim.run_world(n, lambda r, nn: run(r, nn, cfg, None, T), seed=trial); assert not any(err), [e for e in err if e][0][-800:]
    for c in range(1, T):
        w, res, err = sim.run_world(n, lambda r, nn: run(r, nn, cfg, c, T), seed=trial); assert not any(err), (cfg, c, [e for e in err if e][0][-800:])
        for r in range(n):
            if not res[r][1]['restored']: stats['restore_bad'] += 1
        # expectation: equality from step c on iff (c % I == 0) or factors unchanged since last inverse refresh
        last_ref = (c - 1) // cfg['I'] * cfg['I']       # last refresh step index < c  (steps 0..c-1 done)
        fac_changed = any(s % cfg['F'] == 0 for s in range(last_ref + 1, c))   # factor updates after last refresh, before c
        expect_eq = (c % cfg['I'] == 0) or not fac_changed
        dev = max(((res[r][0][i] - base[r][0][i]).abs().max() / base[r][0][i].abs().max()).item() for r in range(n) for i in range(T))
        key = ('eq_expected_and_eq' if dev < 1e-9 else 'eq_expected_but_diff') if expect_eq else ('diff_allowed_but_eq' if dev < 1e-9 else 'diff_allowed')
        stats[key] += 1
        if key == 'eq_expected_but_diff': print("UNEXPECTED", cfg, n, c, dev)
print(stats)
