import sys, warnings, random
from unittest import mock
warnings.simplefilter('ignore')
sys.path.insert(0, '/repo'); sys.path.insert(0, '/tmp/proto/stubs')
from deepspeed.runtime.pipe.topology import PipeModelDataParallelTopology
from kfac.gpt_neox.assignment import GPTNeoXAssignment
rng = random.Random(0)
bad = []; n = 0; order_bad = set()
for pp in range(1, 4):
  for dp in range(1, 5):
    for mp in range(1, 5):
        W = pp * dp * mp
        if W > 24: continue
        topo = PipeModelDataParallelTopology(num_pp=pp, num_mp=mp, num_dp=dp)
        for fam in range(3):
            L = rng.randint(1, 6)
            work = {f'l{i}': ({'A': 1, 'G': 1} if fam == 0 else {'A': rng.choice([0, 1, 2]), 'G': rng.choice([0, 1, 2])} if fam == 1 else {'A': rng.random() * 9, 'G': rng.random()}) for i in range(L)}
            calls = {}; As = []
            for r in range(W):
                calls[r] = []
                with mock.patch('torch.distributed.new_group', side_effect=lambda ranks, r=r: (calls[r].append(tuple(ranks)), ('grp', tuple(ranks)))[1]):
                    dpg = ('dp', tuple([g for g in topo.get_axis_comm_lists('data') if r in g][0]))
                    mpg = ('mp', tuple([g for g in topo.get_axis_comm_lists('model') if r in g][0]))
                    As.append(GPTNeoXAssignment(work, local_rank=r, topology=topo, data_parallel_group=dpg, model_parallel_group=mpg))
            n += 1
            if any(calls[r] != calls[0] for r in range(W)): order_bad.add((pp, dp, mp))
            ok = True
            for r, a in enumerate(As):
                c = topo.get_coord(r)
                stage = [x for x in range(W) if topo.get_coord(x).pipe == c.pipe]
                for l in work:
                    inv = a.inv_worker(l, 'A'); ci = topo.get_coord(inv)
                    ok &= a.inv_worker(l, 'G') == inv and inv in stage
                    ok &= all(As[x].inv_worker(l, 'A') == inv for x in stage)
                    fw = a.factor_worker(l, 'A'); cf = topo.get_coord(fw)
                    ok &= (cf.pipe, cf.data) == (c.pipe, c.data) and (cf.model == ci.model) and cf.pipe == ci.pipe
                    src = a.src_grad_worker(l); cs = topo.get_coord(src)
                    ok &= (cs.pipe, cs.model) == (c.pipe, c.model) and cs.data == ci.data
                    ok &= a.is_grad_worker(l) == ((c.pipe, c.data) == (ci.pipe, ci.data))
            if not ok: bad.append((pp, dp, mp, fam))
print("topologies×families", n, "relational problems", bad[:5], "new_group order problems at", sorted(order_bad))
