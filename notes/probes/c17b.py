import sys, random, itertools, warnings
warnings.simplefilter('ignore')
sys.path.insert(0, '/repo')
from kfac.assignment import KAISAAssignment

def replay_search(work, groups, coloc, res):
    """Backtracking replay: accept iff SOME order consistent with 'decreasing cost' makes every choice least-loaded."""
    tot = {l: sum(work[l].values()) for l in work}
    layers_sorted = sorted(work, key=lambda l: -tot[l])
    # tie groups of layers
    tiegroups = [list(g) for _, g in itertools.groupby(layers_sorted, key=lambda l: tot[l])]
    EPS = 1e-12
    def place_layer(l, loads):
        """yield possible load dicts after placing layer l (branching over factor tie orders)."""
        ws = set(res[l].values())
        gl = [sum(loads[w] for w in g) for g in groups]
        gi = [i for i, g in enumerate(groups) if ws <= set(g)]
        if not gi or gl[gi[0]] > min(gl) + EPS: return
        g = groups[gi[0]]
        if coloc:
            if len(ws) != 1: return
            w = next(iter(ws))
            if loads[w] > min(loads[x] for x in g) + EPS: return
            nl = dict(loads); nl[w] += tot[l]; yield nl; return
        fs = sorted(work[l].items(), key=lambda x: -x[1])
        fgroups = [list(gg) for _, gg in itertools.groupby(fs, key=lambda x: x[1])]
        for perm in itertools.product(*[itertools.permutations(fg) for fg in fgroups]):
            nl = dict(loads); ok = True
            for f, c in itertools.chain(*perm):
                w = res[l][f]
                if nl[w] > min(nl[x] for x in g) + EPS: ok = False; break
                nl[w] += c
            if ok: yield nl
    def rec(gi_, remaining, loads):
        if not remaining:
            if gi_ + 1 == len(tiegroups): return True
            return rec(gi_ + 1, list(tiegroups[gi_ + 1]), loads)
        for l in remaining:
            rest = [x for x in remaining if x != l]
            for nl in place_layer(l, loads):
                if rec(gi_, rest, nl): return True
        return False
    if not tiegroups: return True
    return rec(0, list(tiegroups[0]), {w: 0.0 for g in groups for w in g})

rng = random.Random(0); bad = 0; n = 0
for _ in range(3000):
    W = rng.choice([1, 2, 4, 6, 8]); k = rng.choice([d for d in range(1, W + 1) if W % d == 0])
    groups = [sorted(s) for s in KAISAAssignment.partition_grad_workers(W, k)]
    work = {f'l{i}': {'A': rng.choice([0, 1, 2, 3, 5, 8]), 'G': rng.choice([0, 1, 2, 3, 5, 8])} for i in range(rng.randint(1, 7))}
    coloc = rng.random() < .5
    res = KAISAAssignment.greedy_assignment(work, [list(g) for g in groups], W, coloc)
    n += 1; bad += (not replay_search(work, groups, coloc, res))
print("cases", n, "bad with tie search", bad)
# sanity: a mutated result must be rejected
work = {'a': {'A': 5, 'G': 1}, 'b': {'A': 3, 'G': 3}}
res = KAISAAssignment.greedy_assignment(work, [[0, 1]], 2, True)
print(res, replay_search(work, [[0, 1]], True, res), replay_search(work, [[0, 1]], True, {'a': {'A': 0, 'G': 0}, 'b': {'A': 0, 'G': 0}}))
