import sys, warnings, random, math
warnings.simplefilter('ignore')
sys.path.insert(0, '/repo')
import torch
from kfac.preconditioner import KFACPreconditioner
torch.set_num_threads(1)

def psd(M):
    w, Q = torch.linalg.eigh(M); return (Q * w.clamp(min=0)) @ Q.t()
def solve(D, A, G, lam, method):
    A = A.double(); G = G.double(); D = D.double()
    if method == 'inverse':
        I = torch.eye
        return torch.linalg.solve(G + lam * I(G.shape[0], dtype=torch.float64), D) @ torch.linalg.inv(A + lam * I(A.shape[0], dtype=torch.float64))
    wa, Qa = torch.linalg.eigh(A); wg, Qg = torch.linalg.eigh(G)
    wa = wa.clamp(min=0); wg = wg.clamp(min=0)
    return Qg @ ((Qg.t() @ D @ Qa) / (torch.outer(wg, wa) + lam)) @ Qa.t(), (wa, wg)

rng = random.Random(1)
worst = {}
rows = []
for case in range(400):
    dt = rng.choice([torch.float32, torch.float64])
    method = rng.choice(['eigen', 'inverse'])
    prediv = rng.choice([True, False])
    lam = 10 ** rng.uniform(-3, 1)
    decay = rng.choice([0.5, 0.9, 0.95, 1.0 - 1e-3 * rng.random()])
    i, h, o, B = rng.randint(1, 8), rng.randint(1, 8), rng.randint(1, 8), rng.randint(1, 8)
    torch.manual_seed(case)
    model = torch.nn.Sequential(torch.nn.Linear(i, h, bias=rng.random() < .5), torch.nn.Tanh(), torch.nn.Linear(h, o, bias=rng.random() < .5)).to(dt)
    p = KFACPreconditioner(model, damping=lam, factor_decay=decay, kl_clip=1e30, compute_method=method, compute_eigenvalue_outer_product=prediv, allreduce_bucket_cap_mb=0)
    steps = rng.randint(1, 12)
    for s in range(steps):
        x = torch.randn(B, i, dtype=dt) * 10 ** rng.uniform(-1, 1)
        model.zero_grad(); (model(x) ** 2).mean().backward()
        Ds = {}
        for n, m in model.named_modules():
            if isinstance(m, torch.nn.Linear):
                D = m.weight.grad.clone()
                if m.bias is not None: D = torch.cat([D, m.bias.grad.view(-1, 1)], 1)
                Ds[n] = D
        p.step()
    sd = p.state_dict()['layers']
    for n, m in model.named_modules():
        if isinstance(m, torch.nn.Linear):
            R = m.weight.grad
            if m.bias is not None: R = torch.cat([R, m.bias.grad.view(-1, 1)], 1)
            A, G = sd[n]['A'], sd[n]['G']
            if method == 'inverse':
                V = solve(Ds[n], A, G, lam, method)
                ea = torch.linalg.eigvalsh(A.double()).clamp(min=0); eg = torch.linalg.eigvalsh(G.double()).clamp(min=0)
            else:
                V, (ea, eg) = solve(Ds[n], A, G, lam, method)
            if V.norm() == 0: continue
            rel = ((R.double() - V).norm() / V.norm()).item()
            if method == 'inverse':
                kA = ((ea.max() + lam) / (ea.min() + lam)).item(); kG = ((eg.max() + lam) / (eg.min() + lam)).item()
                kap = kA * kG
            else:
                pr = torch.outer(eg, ea) + lam
                kap = (pr.max() / pr.min()).item()
            eps = 1.19e-7
            rows.append((rel / (eps * kap), rel, kap, method, str(dt), prediv))
rows.sort(reverse=True)
print("max ratio rel/(eps32*kappa):")
for r in rows[:12]: print("  %.2f rel=%.2e kappa=%.2e %s %s prediv=%s" % r)
import statistics
print("median ratio", statistics.median(r[0] for r in rows), "n", len(rows))
print("frac with 64*eps*kappa<0.05:", sum(64 * 1.19e-7 * r[2] < 0.05 for r in rows) / len(rows))
