import sys, warnings, os, json, subprocess, socket, math
warnings.simplefilter('ignore')
sys.path.insert(0, '/repo'); sys.path.insert(0, '/tmp/proto')
import torch, torch.distributed as dist

def install_tracer(log):
    def ranks_of(group):
        return tuple(dist.get_process_group_ranks(group)) if group is not None else tuple(range(dist.get_world_size()))
    for name in ['all_reduce', 'broadcast', 'all_gather', 'reduce_scatter', 'barrier']:
        orig = getattr(dist, name)
        def mk(name, orig):
            def f(*a, **kw):
                group = kw.get('group', None)
                t = a[0] if a and isinstance(a[0], torch.Tensor) else None
                log.append((name, ranks_of(group), tuple(t.shape) if t is not None else None, str(t.dtype) if t is not None else None, kw.get('src')))
                return orig(*a, **kw)
            return f
        setattr(dist, name, mk(name, orig))
    orig_ng = dist.new_group
    def ng(ranks=None, *a, **kw):
        log.append(('new_group', tuple(ranks) if ranks is not None else None, None, None, None))
        return orig_ng(ranks, *a, **kw)
    dist.new_group = ng

def scenario(rank, n, frac, cap):
    import scen
    return scen.fn(rank, n, frac, cap)

if __name__ == '__main__' and len(sys.argv) > 1 and sys.argv[1] == 'worker':
    rank, n, port, frac, cap, out = int(sys.argv[2]), int(sys.argv[3]), sys.argv[4], float(sys.argv[5]), float(sys.argv[6]), sys.argv[7]
    torch.set_num_threads(1)
    os.environ.update(MASTER_ADDR='127.0.0.1', MASTER_PORT=port)
    dist.init_process_group('gloo', rank=rank, world_size=n)
    log = []; install_tracer(log)
    res = scenario(rank, n, frac, cap)
    dist.barrier()
    json.dump({'log': log[:-1], 'grads': [r.tolist() for r in res]}, open(out, 'w'))
    sys.exit(0)

if __name__ == '__main__':
    import sim, time
    n = 4
    for frac, cap in [(0.5, 0.0), (0.25, 25.0), (1.0, 0.0001)]:
        s = socket.socket(); s.bind(('', 0)); port = str(s.getsockname()[1]); s.close()
        t = time.time()
        procs = [subprocess.Popen([sys.executable, __file__, 'worker', str(r), str(n), port, str(frac), str(cap), f'/tmp/proto/gl_{r}.json'], stdout=subprocess.DEVNULL, stderr=subprocess.PIPE) for r in range(n)]
        for p in procs:
            try: p.wait(60)
            except subprocess.TimeoutExpired: p.kill(); print("TIMEOUT")
        tg = time.time() - t
        real = [json.load(open(f'/tmp/proto/gl_{r}.json')) for r in range(n)]
        # sim with same front-end tracer (thread-local logs)
        import threading
        logs = {}
        glob = []
        class L(list):
            def append(self, x): logs.setdefault(threading.current_thread().name, []).append(x)
        saved = {k: getattr(dist, k) for k in ['all_reduce', 'broadcast', 'all_gather', 'reduce_scatter', 'barrier', 'new_group']}
        install_tracer(L())
        def fn(r, nn):
            threading.current_thread().name = f'rank{r}'
            return scenario(r, nn, frac, cap)
        w, res, err = sim.run_world(n, fn, seed=0)
        for k, v in saved.items(): setattr(dist, k, v)
        assert not any(err), [e for e in err if e][0][-1000:]
        ok_trace = all([list(map(lambda e: json.loads(json.dumps(e)), logs[f'rank{r}']))] == [real[r]['log']] for r in range(n))
        dev = max((torch.tensor(real[r]['grads'][i]) - res[r][i]).abs().max().item() / res[r][i].abs().max().item() for r in range(n) for i in range(4))
        print(f"frac={frac} cap={cap}: gloo {tg:.1f}s, events/rank {len(real[0]['log'])}, front-end traces equal: {ok_trace}, max rel grad dev sim vs gloo: {dev:.2e}")
