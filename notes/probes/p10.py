import sys, warnings, time, random
warnings.simplefilter('ignore')
sys.path.insert(0, '/repo')
import torch, torch.distributed as dist
import sim, p2
mon = sys.monitoring
TOOL = 3
mon.use_tool_id(TOOL, "kverif")
rng = random.Random(0)
stats = {'line_events': 0, 'deliveries': 0, 'sites': set()}
def on_line(code, line):
    if not code.co_filename.startswith('/repo/kfac/'):
        return mon.DISABLE
    stats['line_events'] += 1
    w = getattr(sim._tls, 'world', None)
    if w is None: return
    r = sim._tls.rank
    if w.sched.pending[r] and rng.random() < 0.5:
        stats['deliveries'] += len(w.sched.pending[r]); stats['sites'].add((code.co_filename.split('/')[-1], line))
        sim.deliver(w, r)
mon.register_callback(TOOL, mon.events.LINE, on_line)
for on in [False, True]:
    mon.set_events(TOOL, mon.events.LINE if on else 0)
    t = time.time()
    for seed in range(4):
        w, res, err = sim.run_world(4, lambda r, n: p2.fn(r, n, 0.5, 0.0001), seed=seed)
        assert not any(err), [e for e in err if e][0][-800:]
        assert all(torch.equal(res[0][i], res[r][i]) for r in range(4) for i in range(4))
    print("line injection", on, "%.3f s/run" % ((time.time() - t) / 4), {k: (len(v) if isinstance(v, set) else v) for k, v in stats.items()})
print(sorted(stats['sites'])[:12])
