import sys, warnings, copy
warnings.simplefilter('ignore')
sys.path.insert(0, '/repo')
import torch
from kfac.preconditioner import KFACPreconditioner
torch.set_num_threads(1)
torch.manual_seed(0)
m1 = torch.nn.Sequential(torch.nn.Conv2d(2, 3, 3, padding=1), torch.nn.BatchNorm2d(3), torch.nn.ReLU(), torch.nn.Flatten(), torch.nn.Linear(3*6*6, 5), torch.nn.Tanh(), torch.nn.Linear(5, 2, bias=False))
m2 = copy.deepcopy(m1)
p = KFACPreconditioner(m2, skip_layers=['6'])
x = torch.randn(4, 2, 6, 6)
o1 = m1(x); o2 = m2(x)
print("outputs equal", torch.equal(o1, o2))
o1.pow(2).sum().backward(); o2.pow(2).sum().backward()
print("grads equal", all(torch.equal(a.grad, b.grad) for a, b in zip(m1.parameters(), m2.parameters())))
before = {n: (q.detach().clone(), q.grad.clone()) for n, q in m2.named_parameters()}
bufs = {n: b.clone() for n, b in m2.named_buffers()}
p.step()
for n, q in m2.named_parameters():
    print(n, "param same", torch.equal(before[n][0], q), "grad same", torch.equal(before[n][1], q.grad), q.grad.dtype, q.grad.is_contiguous())
print("bufs same", all(torch.equal(bufs[n], b) for n, b in m2.named_buffers()))
print(sorted(p.state_dict()['layers'].keys()))
layer = list(p._layers.values())[0][1]
print({k: type(v).__name__ for k, v in vars(layer).items()})
print(p.memory_usage())
