import sys, warnings, time
warnings.simplefilter('ignore')
sys.path.insert(0, '/repo')
import torch, torch.distributed as dist
import sim
from kfac.preconditioner import KFACPreconditioner
torch.set_num_threads(1)

def mk():
    torch.manual_seed(0)
    return torch.nn.Sequential(torch.nn.Linear(5, 7), torch.nn.ReLU(), torch.nn.Linear(7, 3, bias=False), torch.nn.ReLU(), torch.nn.Linear(3, 4)).double()

def fn(rank, n, frac):
    model = mk()
    p = KFACPreconditioner(model, grad_worker_fraction=frac, allreduce_bucket_cap_mb=0, damping=0.01, inv_update_steps=3)
    g = torch.Generator().manual_seed(100 + rank)
    def it():
        x = torch.randn(6, 5, generator=g, dtype=torch.float64)
        model.zero_grad()
        model(x).pow(2).mean().backward()
        for prm in model.parameters():
            dist.all_reduce(prm.grad); prm.grad /= n
        p.step()
    it(); it()
    sd = p.state_dict()
    model2 = mk()
    p2 = KFACPreconditioner(model2, grad_worker_fraction=frac, allreduce_bucket_cap_mb=0, damping=0.01, inv_update_steps=3)
    p2.load_state_dict(sd)
    return p2.steps

t=time.time()
for frac in [1.0, 0.5, 0.25]:
    w, res, err = sim.run_world(4, lambda r, n: fn(r, n, frac), seed=1)
    print("frac", frac, "res", res, "deadlock", w.sched.deadlock)
    for r, e in enumerate(err):
        if e: print("  rank", r, e.strip().splitlines()[-1])
print("time", time.time()-t)

# kl_clip None
try:
    KFACPreconditioner(mk(), kl_clip=None)
    print("kl_clip=None accepted")
except Exception as e:
    print("kl_clip=None ->", type(e).__name__, e)

# world_size 98
from kfac.assignment import KAISAAssignment
bad = []
for ws in range(1, 200):
    for k in range(1, ws+1):
        if ws % k: continue
        try:
            KAISAAssignment({'l': {'A': 1, 'G': 1}}, local_rank=0, world_size=ws, grad_worker_fraction=k/ws, group_func=lambda x: None)
        except ValueError as e:
            bad.append((ws, k))
print("rejected (ws,k):", bad[:20], len(bad))
