import sys, warnings, time
warnings.simplefilter('ignore')
sys.path.insert(0, '/repo'); sys.path.insert(0, '/tmp/proto/stubs')
import torch, torch.distributed as dist
import sim
from deepspeed.pipe import PipelineModule
from deepspeed.runtime.pipe.topology import PipeModelDataParallelTopology
from kfac.gpt_neox.preconditioner import GPTNeoXKFACPreconditioner
torch.set_num_threads(1)

class ColumnParallelLinear(torch.nn.Linear): pass
class RowParallelLinear(torch.nn.Linear): pass

PP, DP, MP = 1, 2, 2
IN, HID, OUT, B = 4, 6, 4, 5
def full_weights(bias):
    g = torch.Generator().manual_seed(7)
    W1 = torch.randn(HID, IN, generator=g, dtype=torch.float64); b1 = torch.randn(HID, generator=g, dtype=torch.float64)
    W2 = torch.randn(OUT, HID, generator=g, dtype=torch.float64); b2 = torch.randn(OUT, generator=g, dtype=torch.float64)
    return W1, b1, W2, b2

def fn(rank, n, bias=True, kl=1e9, steps=2):
    topo = PipeModelDataParallelTopology(num_pp=PP, num_mp=MP, num_dp=DP)
    c = topo.get_coord(rank)
    # all ranks create all groups in the same order
    dpg = mpg = None
    for ranks in topo.get_axis_comm_lists('data'):
        g = dist.new_group(ranks)
        if rank in ranks: dpg = g
    for ranks in topo.get_axis_comm_lists('model'):
        g = dist.new_group(ranks)
        if rank in ranks: mpg = g
    W1, b1, W2, b2 = full_weights(bias)
    m = c.model
    col = ColumnParallelLinear(IN, HID // MP, bias=bias).double()
    row = RowParallelLinear(HID // MP, OUT, bias=bias).double()
    sl = slice(m * HID // MP, (m + 1) * HID // MP)
    with torch.no_grad():
        col.weight.copy_(W1[sl]); row.weight.copy_(W2[:, sl])
        if bias: col.bias.copy_(b1[sl]); row.bias.copy_(b2)
    model = PipelineModule([col, row], topo)
    p = GPTNeoXKFACPreconditioner(model, data_parallel_group=dpg, model_parallel_group=mpg, damping=0.01, kl_clip=kl, lr=0.1, allreduce_bucket_cap_mb=0)
    gen = torch.Generator().manual_seed(100 + c.data)
    outs = []
    for it in range(steps):
        x = torch.randn(B, IN, generator=gen, dtype=torch.float64)
        model.zero_grad()
        h = torch.relu(col(x))                      # (B, HID/MP)
        part = torch.nn.functional.linear(h, row.weight)  # partial sum
        # emulate reduce_from_model_parallel_region (fwd allreduce, bwd identity)
        tot = part.detach().clone(); dist.all_reduce(tot, group=mpg)
        y = part + (tot - part).detach()
        # call row module for hooks: need hooks on row forward; simplest: run row(h) properly
        y2 = row(h)   # triggers K-FAC hooks with sharded input h; output local partial + bias
        y_full = y2 + (tot - part).detach()
        loss = y_full.pow(2).mean()
        loss.backward()
        # col grads: need allreduce of grad wrt x across MP (not needed, first layer)
        for prm in model.parameters():
            dist.all_reduce(prm.grad, group=dpg); prm.grad /= DP
        p.step()
        outs.append({k: v.grad.clone() for k, v in model.named_parameters()})
    return outs

for bias in [True, False]:
    w, res, err = sim.run_world(PP*DP*MP, lambda r, n: fn(r, n, bias), seed=3)
    print("bias", bias, "deadlock", w.sched.deadlock)
    for r, e in enumerate(err):
        if e: print("  rank", r, e.strip().splitlines()[-3:])
    if not any(err):
        print("  ok; kinds:", sorted({t[1] for t in w.trace}))
