import sys, warnings
warnings.simplefilter('ignore')
sys.path.insert(0, '/repo'); sys.path.insert(0, '/tmp/proto/stubs')
import torch, torch.distributed as dist
import sim, p4
from p4 import *
from kfac.preconditioner import KFACPreconditioner

def ref(rank, n, bias, kl, steps=2):
    W1, b1, W2, b2 = full_weights(bias)
    col = torch.nn.Linear(IN, HID, bias=bias).double(); row = torch.nn.Linear(HID, OUT, bias=bias).double()
    with torch.no_grad():
        col.weight.copy_(W1); row.weight.copy_(W2)
        if bias: col.bias.copy_(b1); row.bias.copy_(b2)
    model = torch.nn.Sequential(col, torch.nn.ReLU(), row)
    p = KFACPreconditioner(model, damping=0.01, kl_clip=kl, lr=0.1, allreduce_bucket_cap_mb=0, compute_eigenvalue_outer_product=False)
    gen = torch.Generator().manual_seed(100 + rank)
    outs = []
    for it in range(steps):
        x = torch.randn(B, IN, generator=gen, dtype=torch.float64)
        model.zero_grad()
        model(x).pow(2).mean().backward()
        for prm in model.parameters():
            dist.all_reduce(prm.grad); prm.grad /= n
        p.step()
        outs.append({'col.weight': col.weight.grad.clone(), 'row.weight': row.weight.grad.clone(), **({'col.bias': col.bias.grad.clone(), 'row.bias': row.bias.grad.clone()} if bias else {})})
    return outs

for kl in [1e9, 1e-3]:
    w, res, err = sim.run_world(PP*DP*MP, lambda r, n: p4.fn(r, n, True, kl), seed=3)
    assert not any(err), err
    w2, ref_res, err2 = sim.run_world(DP, lambda r, n: ref(r, n, True, kl), seed=3)
    assert not any(err2), err2
    topo = PipeModelDataParallelTopology(num_pp=PP, num_mp=MP, num_dp=DP)
    for step in range(2):
        for rank in range(4):
            c = topo.get_coord(rank); m = c.model
            sl = slice(m * HID // MP, (m + 1) * HID // MP)
            R = ref_res[0][step]; S = res[rank][step]
            d = {
              'col.w': (S['layers_.0.weight'] - R['col.weight'][sl]).abs().max().item() / R['col.weight'].abs().max().item(),
              'col.b': (S['layers_.0.bias'] - R['col.bias'][sl]).abs().max().item() / R['col.bias'].abs().max().item(),
              'row.w': (S['layers_.1.weight'] - R['row.weight'][:, sl]).abs().max().item() / R['row.weight'].abs().max().item(),
              'row.b': (S['layers_.1.bias'] - R['row.bias']).abs().max().item() / R['row.bias'].abs().max().item(),
            }
            print("kl", kl, "step", step, "rank", rank, {k: f"{v:.2e}" for k, v in d.items()})
