import sys, warnings
warnings.simplefilter('ignore')
sys.path.insert(0, '/repo'); sys.path.insert(0, '/tmp/proto/stubs')
import torch, torch.distributed as dist
import sim
from deepspeed.runtime.pipe.topology import PipeModelDataParallelTopology
from kfac.gpt_neox.assignment import GPTNeoXAssignment
from kfac.distributed import TorchDistributedCommunicator
torch.set_num_threads(1)

# (3) C12 new_group order with pp=2, dp=2, mp=2
def fn12(rank, n):
    topo = PipeModelDataParallelTopology(num_pp=2, num_mp=2, num_dp=2)
    dpg = mpg = None
    for ranks in topo.get_axis_comm_lists('data'):
        g = dist.new_group(ranks)
        if rank in ranks: dpg = g
    for ranks in topo.get_axis_comm_lists('model'):
        g = dist.new_group(ranks)
        if rank in ranks: mpg = g
    a = GPTNeoXAssignment({'l0': {'A': 3, 'G': 1}, 'l1': {'A': 2, 'G': 2}}, local_rank=rank, topology=topo, data_parallel_group=dpg, model_parallel_group=mpg)
    return {l: a.inv_worker(l, 'A') for l in a.get_layers()}, a.pipe_parallel_peers
w, res, err = sim.run_world(8, fn12, seed=0)
print("C12 res", res)
print("C12 err", [e.strip().splitlines()[-1] if e else None for e in err])
ng = [t for t in w.trace if t[1] == 'new_group']
byidx = {}
for r, _, ranks, name in ng: byidx.setdefault(name, {})[r] = ranks
for name, d in sorted(byidx.items(), key=lambda kv: int(kv[0])):
    print("  group idx", name, "distinct rank lists:", sorted(set(d.values())), "callers", len(d))

# (5) C08 equal-size groups sharing a bucket
def fn8(rank, n):
    groups = {}
    for ranks in [(0, 1), (2, 3), (0, 2), (1, 3)]:
        g = dist.new_group(list(ranks))
        if rank in ranks: groups[ranks] = g
    comm = TorchDistributedCommunicator(bucket_cap_mb=25)
    futs = {}
    for ranks, g in groups.items():
        t = torch.full((2, 2), float(rank + 1))
        futs[ranks] = comm.allreduce_bucketed(t, group=g)
    comm.flush_allreduce_buckets()
    return {k: (v.wait() if not isinstance(v, torch.Tensor) else v)[0, 0].item() for k, v in futs.items()}
w, res, err = sim.run_world(4, fn8, seed=0)
print("C08 res", res, "deadlock", w.sched.deadlock)
print("C08 err", [e.strip().splitlines()[-1] if e else None for e in err])
