import sys, warnings
warnings.simplefilter('ignore')
sys.path.insert(0, '/repo')
import torch, torch.distributed as dist
import sim
from kfac.preconditioner import KFACPreconditioner
torch.set_num_threads(1)
def fn(rank, n, method):
    torch.manual_seed(0)
    model = torch.nn.Sequential(torch.nn.Linear(5, 7), torch.nn.ReLU(), torch.nn.Linear(7, 3)).double()
    p = KFACPreconditioner(model, compute_method=method, colocate_factors=False, allreduce_bucket_cap_mb=0)
    x = torch.randn(6, 5, dtype=torch.float64)
    model(x).pow(2).mean().backward()
    p.step()
    return 'ok'
from kfac.enums import ComputeMethod
for method in [ComputeMethod.EIGEN, 'eigen']:
    w, res, err = sim.run_world(2, lambda r, n: fn(r, n, method), seed=0)
    print(method, res, [e.strip().splitlines()[-1] if e else None for e in err])
