import sys, warnings, copy
warnings.simplefilter('ignore')
sys.path.insert(0, '/repo'); sys.path.insert(0, '/tmp/proto/stubs')
import torch, torch.distributed as dist
import sim
from deepspeed.pipe import PipelineModule
from deepspeed.runtime.pipe.topology import PipeModelDataParallelTopology
from kfac.gpt_neox.preconditioner import GPTNeoXKFACPreconditioner
torch.set_num_threads(1)
class ColumnParallelLinear(torch.nn.Linear): pass
class RowParallelLinear(torch.nn.Linear): pass
IN, HID, OUT, B = 4, 6, 4, 5

def build(rank, topo, mpg, dpg, MP):
    g = torch.Generator().manual_seed(7)
    W1 = torch.randn(HID, IN, generator=g, dtype=torch.float64); b1 = torch.randn(HID, generator=g, dtype=torch.float64)
    W2 = torch.randn(OUT, HID, generator=g, dtype=torch.float64); b2 = torch.randn(OUT, generator=g, dtype=torch.float64)
    m = topo.get_coord(rank).model
    col = ColumnParallelLinear(IN, HID // MP).double(); row = RowParallelLinear(HID // MP, OUT).double()
    sl = slice(m * HID // MP, (m + 1) * HID // MP)
    with torch.no_grad():
        col.weight.copy_(W1[sl]); row.weight.copy_(W2[:, sl]); col.bias.copy_(b1[sl]); row.bias.copy_(b2)
    model = PipelineModule([col, row], topo)
    p = GPTNeoXKFACPreconditioner(model, data_parallel_group=dpg, model_parallel_group=mpg, damping=0.01, kl_clip=1e9, lr=0.1, allreduce_bucket_cap_mb=0)
    return model, col, row, p

def fn(rank, n, DP, MP, ckpt_at):
    topo = PipeModelDataParallelTopology(num_pp=1, num_mp=MP, num_dp=DP)
    c = topo.get_coord(rank)
    dpg = mpg = None
    for ranks in topo.get_axis_comm_lists('data'):
        g = dist.new_group(ranks); dpg = g if rank in ranks else dpg
    for ranks in topo.get_axis_comm_lists('model'):
        g = dist.new_group(ranks); mpg = g if rank in ranks else mpg
    model, col, row, p = build(rank, topo, mpg, dpg, MP)
    gen = torch.Generator().manual_seed(100 + c.data)
    outs = []
    for it in range(4):
        if it == ckpt_at:
            sd = p.state_dict()
            model, col, row, p = build(rank, topo, mpg, dpg, MP)
            p.load_state_dict(sd)
        x = torch.randn(B, IN, generator=gen, dtype=torch.float64)
        model.zero_grad()
        h = torch.relu(col(x))
        part = torch.nn.functional.linear(h, row.weight)
        tot = part.detach().clone()
        if MP > 1: dist.all_reduce(tot, group=mpg)
        y = row(h) + (tot - part).detach()
        y.pow(2).mean().backward()
        for prm in model.parameters():
            if DP > 1: dist.all_reduce(prm.grad, group=dpg); prm.grad /= DP
        p.step()
        outs.append(torch.cat([q.grad.flatten() for q in model.parameters()]).clone())
    return outs

for DP, MP in [(2, 1), (1, 2), (2, 2)]:
    w0, base, e0 = sim.run_world(DP * MP, lambda r, n: fn(r, n, DP, MP, None), seed=1)
    assert not any(e0), e0
    for ck in [1, 2]:
        w1, res, e1 = sim.run_world(DP * MP, lambda r, n: fn(r, n, DP, MP, ck), seed=1)
        if any(e1): print(DP, MP, ck, "ERR", [e.strip().splitlines()[-1] for e in e1 if e]); continue
        dev = max(((res[r][i] - base[r][i]).abs().max() / base[r][i].abs().max()).item() for r in range(DP * MP) for i in range(4))
        print("dp", DP, "mp", MP, "ckpt_at", ck, "max rel dev resumed vs uninterrupted: %.2e" % dev)
