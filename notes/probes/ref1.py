"""Throwaway: independent float64 reference K-FAC vs real code on random histories (C04/C05 rules)."""
import sys, warnings, random, math
warnings.simplefilter('ignore')
sys.path.insert(0, '/repo')
import torch, torch.nn.functional as F
from kfac.preconditioner import KFACPreconditioner
from kfac.scheduler import LambdaParamScheduler
torch.set_num_threads(1)

def mom_linear(x, bias):
    r = x.double().reshape(-1, x.shape[-1])
    if bias: r = torch.cat([r, torch.ones(r.shape[0], 1, dtype=torch.float64)], 1)
    return r.t() @ r / r.shape[0]
def mom_conv_in(x, conv):
    p = F.unfold(x.double(), conv.kernel_size, padding=conv.padding, stride=conv.stride)  # B, C*kh*kw, S
    S = p.shape[-1]
    r = p.transpose(1, 2).reshape(-1, p.shape[1])
    if conv.bias is not None: r = torch.cat([r, torch.ones(r.shape[0], 1, dtype=torch.float64)], 1)
    r = r / S
    return r.t() @ r / r.shape[0]
def mom_conv_out(g):
    S = g.shape[2] * g.shape[3]
    r = g.double().permute(0, 2, 3, 1).reshape(-1, g.shape[1]) / S
    return r.t() @ r / r.shape[0]
def mom_lin_out(g):
    r = g.double().reshape(-1, g.shape[-1]); return r.t() @ r / r.shape[0]

def eig_psd(M):
    w, Q = torch.linalg.eigh(M); return w.clamp(min=0), Q

class Ref:
    def __init__(s, names, method, prediv, hp):
        s.names = names; s.method = method; s.prediv = prediv; s.hp = hp; s.steps = 0
        s.A = {n: None for n in names}; s.G = {n: None for n in names}
        s.pa = {n: [] for n in names}; s.pg = {n: [] for n in names}; s.snap = {}
    def val(s, k):
        v = s.hp[k]; return v(s.steps) if callable(v) else v
    def fb(s, cap, train=True):
        if not train: return
        if s.steps % s.val('F') == 0:
            for n in s.names:
                s.pa[n].append(cap[n][0]); s.pg[n].append(cap[n][1])
    def step(s, D):
        if s.steps % s.val('F') == 0:
            d = s.val('decay')
            for n in s.names:
                if s.pa[n]:
                    Ma = sum(s.pa[n]) / len(s.pa[n]); Mg = sum(s.pg[n]) / len(s.pg[n])
                    if s.A[n] is None: s.A[n] = torch.eye(Ma.shape[0], dtype=torch.float64); s.G[n] = torch.eye(Mg.shape[0], dtype=torch.float64)
                    s.A[n] = d * s.A[n] + (1 - d) * Ma; s.G[n] = d * s.G[n] + (1 - d) * Mg
                    s.pa[n] = []; s.pg[n] = []
        if s.steps % s.val('I') == 0:
            for n in s.names: s.snap[n] = (s.A[n].clone(), s.G[n].clone(), s.val('damping'))
        V = {}
        for n in s.names:
            A, G, lam0 = s.snap[n]
            if s.method == 'inverse':
                I = lambda k: torch.eye(k, dtype=torch.float64)
                V[n] = torch.linalg.inv(G + lam0 * I(G.shape[0])) @ D[n] @ torch.linalg.inv(A + lam0 * I(A.shape[0]))
            else:
                lam = lam0 if s.prediv else s.val('damping')
                wa, Qa = eig_psd(A); wg, Qg = eig_psd(G)
                V[n] = Qg @ ((Qg.t() @ D[n] @ Qa) / (torch.outer(wg, wa) + lam)) @ Qa.t()
        kl = s.val('kl'); lr = s.val('lr')
        vg = sum((V[n] * D[n]).sum().item() * lr ** 2 for n in s.names)
        nu = 1.0 if vg == 0 else min(1.0, math.sqrt(kl / abs(vg)))
        s.steps += 1
        return {n: nu * V[n] for n in s.names}, nu

def comb(m):
    g = m.weight.grad.reshape(m.weight.shape[0], -1)
    if m.bias is not None: g = torch.cat([g, m.bias.grad.view(-1, 1)], 1)
    return g.double().clone()

rng = random.Random(5)
worst = 0; nstale = 0; ncases = 0
for case in range(60):
    torch.manual_seed(case)
    conv = torch.nn.Conv2d(2, 3, (2, 3), stride=(1, 2), padding=(1, 0), bias=rng.random() < .5)
    lin = torch.nn.Linear(3 * 2 * 2, 4, bias=rng.random() < .5)
    model = torch.nn.Sequential(conv, torch.nn.Tanh(), torch.nn.AdaptiveAvgPool2d(2), torch.nn.Flatten(), lin).double()
    method = rng.choice(['eigen', 'inverse']); prediv = rng.choice([True, False])
    hook = rng.choice([True, False]); acc = rng.choice([1, 2, 3])
    Fv = rng.choice([1, 2, 3, lambda s: 1 + s % 3]); Iv = rng.choice([1, 2, 3, 4, lambda s: 2 + s % 2])
    damp = rng.choice([0.05, 0.5, lambda s: 0.05 * (1 + s)])
    decay = rng.choice([0.9, 0.5, lambda s: 0.95 - 0.02 * (s % 5)])
    kl = rng.choice([1e-3, 1e9, lambda s: 1e-3 * (1 + s)]); lr = rng.choice([0.1, lambda s: 0.1 / (1 + s)])
    with warnings.catch_warnings():
        warnings.simplefilter('ignore')
        p = KFACPreconditioner(model, factor_update_steps=Fv, inv_update_steps=Iv, damping=damp, factor_decay=decay, kl_clip=kl, lr=lr,
                               compute_method=method, compute_eigenvalue_outer_product=prediv, update_factors_in_hook=hook, accumulation_steps=acc, allreduce_bucket_cap_mb=0)
    names = ['0', '4']; mods = {'0': conv, '4': lin}
    ref = Ref(names, method, prediv, dict(F=Fv, I=Iv, damping=damp, decay=decay, kl=kl, lr=lr))
    cap = {}
    def pre(name):
        def h(m, inp): cap.setdefault(name, [None, None])[0] = inp[0].detach().clone()
        return h
    def bwd(name):
        def h(m, gi, go): cap.setdefault(name, [None, None])[1] = go[0].detach().clone()
        return h
    for n, m in mods.items():
        m.register_forward_pre_hook(pre(n)); m.register_full_backward_hook(bwd(n))
    sched = None
    if not callable(damp) and rng.random() < .5:
        sched = LambdaParamScheduler(p, damping_lambda=lambda s: 1 + 0.1 * s)
    for it in range(rng.randint(3, 12)):
        if rng.random() < .3:   # eval pass
            model.eval(); model(torch.randn(2, 2, 5, 6, dtype=torch.float64)).sum().backward(); model.train(); model.zero_grad()
        model.zero_grad()
        for mb in range(acc):
            x = torch.randn(rng.randint(1, 4), 2, 5, 6, dtype=torch.float64)
            (model(x) ** 2).mean().backward()
            c = {'0': (mom_conv_in(cap['0'][0], conv), mom_conv_out(cap['0'][1])), '4': (mom_linear(cap['4'][0], lin.bias is not None), mom_lin_out(cap['4'][1]))}
            ref.fb(c)
        D = {n: comb(m) for n, m in mods.items()}
        p.step()
        exp, nu = ref.step(D)
        assert p.steps == ref.steps
        for n, m in mods.items():
            got = comb(m); rel = ((got - exp[n]).norm() / exp[n].norm()).item(); worst = max(worst, rel)
            if rel > 1e-3: print("MISMATCH case", case, "it", it, n, rel, method, prediv, hook, acc); raise SystemExit
        sd = p.state_dict()['layers']
        for n in names:
            ra = ((sd[n]['A'] - ref.A[n]).norm() / ref.A[n].norm()).item(); rg = ((sd[n]['G'] - ref.G[n]).norm() / ref.G[n].norm()).item()
            assert ra < 1e-10 and rg < 1e-10, (case, it, n, ra, rg)
        if sched is not None:
            sched.step(); ref.hp['damping'] = p._damping
    ncases += 1
print("cases", ncases, "worst rel grad deviation vs reference %.2e" % worst)
