import sys, warnings
warnings.simplefilter('ignore')
sys.path.insert(0, '/repo')
import torch, torch.distributed as dist
import sim
from kfac.preconditioner import KFACPreconditioner
torch.set_num_threads(1)

def fn(rank, n, frac=0.5, cap=0.0):
    torch.manual_seed(0)
    model = torch.nn.Sequential(torch.nn.Linear(5, 7), torch.nn.ReLU(), torch.nn.Linear(7, 3, bias=False), torch.nn.ReLU(), torch.nn.Linear(3, 4)).double()
    p = KFACPreconditioner(model, grad_worker_fraction=frac, allreduce_bucket_cap_mb=cap, damping=0.01, kl_clip=0.001, lr=0.1, inv_update_steps=2)
    g = torch.Generator().manual_seed(100 + rank)
    out = []
    for it in range(4):
        x = torch.randn(6, 5, generator=g, dtype=torch.float64)
        model.zero_grad()
        loss = model(x).pow(2).mean()
        loss.backward()
        for prm in model.parameters():
            dist.all_reduce(prm.grad); prm.grad /= n
        p.step()
        out.append(torch.cat([q.grad.flatten() for q in model.parameters()]).clone())
    return out

