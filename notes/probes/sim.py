"""Throwaway feasibility prototype of an async, scheduler-controlled threaded PG."""
import threading, random, sys, traceback
import torch
import torch.distributed as dist
from torch.futures import Future
from torch.testing._internal.distributed.multi_threaded_pg import ThreadLocalWorld
from torch._C._distributed_c10d import ReduceOp

_tls = threading.local()

class Sched:
    def __init__(self, n, seed):
        self.n = n; self.rng = random.Random(seed)
        self.cv = threading.Condition()
        self.current = None
        self.state = ['ready'] * n   # ready / blocked / done
        self.pending = [[] for _ in range(n)]  # completions to deliver
        self.deadlock = None
        self.switches = 0
    def pick(self):
        runnable = [r for r in range(self.n) if self.state[r] == 'ready' or (self.state[r] == 'blocked' and self.pending[r])]
        if not runnable:
            if all(s == 'done' for s in self.state):
                self.current = None
            else:
                self.deadlock = list(self.state)
                self.current = -1
            self.cv.notify_all()
            return
        self.current = self.rng.choice(runnable)
        self.switches += 1
        self.cv.notify_all()
    def start(self, r):
        with self.cv:
            while self.current != r:
                if self.current == -1: raise SystemExit('deadlock')
                self.cv.wait()
    def yield_(self, r, blocked=False):
        with self.cv:
            self.state[r] = 'blocked' if blocked else 'ready'
            self.pick()
            while self.current != r:
                if self.current == -1: raise SystemExit('deadlock')
                self.cv.wait()
            self.state[r] = 'ready'
    def finish(self, r):
        with self.cv:
            self.state[r] = 'done'
            self.pick()

class SimWorld:
    def __init__(self, n, seed):
        self.n = n
        self.sched = Sched(n, seed)
        self.groups = {}  # name -> dict(ranks=..., queues={rank: [ops]}, matched=int)
        self.trace = []
        self.lock = threading.Lock()

class Op:
    def __init__(self, kind, rank, data, meta):
        self.kind = kind; self.rank = rank; self.data = data; self.meta = meta
        self.fut = Future()

class SimWork(dist.Work):
    def __init__(self, world, op):
        super().__init__()
        self.world = world; self.op = op
    def wait(self, timeout=None):
        sim_wait(self.op.fut)
        return True
    def get_future(self):
        return self.op.fut
    def is_completed(self): return self.op.fut.done()

def deliver(world, r):
    q = world.sched.pending[r]
    while q:
        op, result = q.pop(0)
        op.fut.set_result(result)

_orig_wait = torch._C.Future.wait
def sim_wait(fut):
    world = getattr(_tls, 'world', None)
    if world is None:
        return _orig_wait(fut)
    r = _tls.rank
    while True:
        deliver(world, r)
        if fut.done():
            break
        world.sched.yield_(r, blocked=True)
    return _orig_wait(fut)
torch._C.Future.wait = sim_wait

class SimPG(dist.ProcessGroup):
    def __init__(self, world, name, ranks, grank):
        super().__init__(ranks.index(grank), len(ranks))
        self.w = world; self.name = name; self.ranks = ranks; self.grank = grank
        with world.lock:
            g = world.groups.setdefault(name, dict(ranks=ranks, queues={r: [] for r in ranks}, matched=0))
            assert g['ranks'] == ranks, (g['ranks'], ranks)
    def size(self): return len(self.ranks)
    def getBackendName(self): return 'sim'
    @property
    def group_name(self): return self.name
    def new_group(self, ranks, timeout=None, backend=None, pg_options=None, group_name=None, group_desc=None):
        self.w.trace.append((self.grank, 'new_group', tuple(ranks), str(group_name)))
        self.w.sched.yield_(self.grank)
        if self.grank not in ranks:
            return None
        return SimPG(self.w, 'g' + str(group_name), list(ranks), self.grank)
    def _issue(self, kind, data, meta):
        w = self.w; r = self.grank
        w.sched.yield_(r)
        op = Op(kind, r, data, meta)
        g = w.groups[self.name]
        g['queues'][r].append(op)
        w.trace.append((r, kind, self.name, meta))
        # try match
        k = g['matched']
        while all(len(g['queues'][x]) > k for x in self.ranks):
            ops = [g['queues'][x][k] for x in self.ranks]
            self._complete(ops)
            k += 1
        g['matched'] = k
        deliver(w, r)
        return SimWork(w, op)
    @torch.no_grad()
    def _complete(self, ops):
        kinds = {o.kind for o in ops}; metas = {o.meta for o in ops}
        assert len(kinds) == 1 and len(metas) == 1, ('MISMATCH', [(o.rank, o.kind, o.meta) for o in ops])
        kind = ops[0].kind
        if kind == 'allreduce':
            tot = torch.stack([o.data[0] for o in ops]).sum(0)
            for o in ops:
                o.data[0].copy_(tot)
                self.w.sched.pending[o.rank].append((o, o.data))
        elif kind == 'broadcast':
            root = ops[0].meta[-1]
            src = ops[root].data[0]
            for o in ops:
                if o is not ops[root]: o.data[0].copy_(src)
                self.w.sched.pending[o.rank].append((o, o.data))
        elif kind == 'allgather':
            for o in ops:
                outs, inp = o.data
                for i, oo in enumerate(ops):
                    outs[0][i].copy_(oo.data[1][0])
                self.w.sched.pending[o.rank].append((o, outs))
        elif kind == 'reduce_scatter':
            for i, o in enumerate(ops):
                out, ins = o.data
                tot = torch.stack([oo.data[1][0][i] for oo in ops]).sum(0)
                out[0].copy_(tot)
                self.w.sched.pending[o.rank].append((o, out))
        else:
            raise NotImplementedError(kind)
    def allreduce(self, tensors, opts=None):
        t = tensors[0]
        return self._issue('allreduce', tensors, (tuple(t.shape), str(t.dtype)))
    def broadcast(self, tensors, opts=None):
        t = tensors[0]
        return self._issue('broadcast', tensors, (tuple(t.shape), str(t.dtype), opts.rootRank))
    def allgather(self, outs, ins, opts=None):
        t = ins[0]
        return self._issue('allgather', (outs, ins), (tuple(t.shape), str(t.dtype)))
    def reduce_scatter(self, outs, ins, opts=None):
        t = outs[0]
        return self._issue('reduce_scatter', (outs, ins), (tuple(t.shape), str(t.dtype)))
    def barrier(self, opts=None):
        return self._issue('allreduce', [torch.zeros(1)], ((1,), 'barrier'))

def run_world(n, fn, seed=0):
    world = SimWorld(n, seed)
    old = dist.distributed_c10d._world
    dist.distributed_c10d._world = ThreadLocalWorld()
    ctx = torch.autograd.set_multithreading_enabled(False)
    results = [None] * n; errors = [None] * n
    torch._C._distributed_c10d._set_thread_isolation_mode(True)
    if 'sim' not in dist.Backend.backend_list:
        def creator(store, rank, size, timeout):
            return SimPG(_tls.world, 'world', list(range(size)), rank)
        dist.Backend.register_backend('sim', creator, devices=['cpu'])
    store = dist.HashStore()
    def body(r):
        _tls.world = world; _tls.rank = r
        try:
            world.sched.start(r)
            dist.init_process_group('sim', rank=r, world_size=n, store=store)
            results[r] = fn(r, n)
        except BaseException as e:
            errors[r] = ''.join(traceback.format_exception(e))
        finally:
            try: dist.destroy_process_group()
            except Exception as e: pass
            world.sched.finish(r)
    ths = [threading.Thread(target=body, args=(r,)) for r in range(n)]
    with world.sched.cv:
        world.sched.pick()
    for t in ths: t.start()
    for t in ths: t.join(60)
    dist.distributed_c10d._world = old
    torch._C._distributed_c10d._set_thread_isolation_mode(False)
    ctx.__exit__(None, None, None)
    return world, results, errors
