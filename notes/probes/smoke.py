import sys, warnings, random, itertools, math
warnings.simplefilter('ignore')
sys.path.insert(0, '/repo')
import torch, torch.nn.functional as F
torch.set_num_threads(1)
from kfac.distributed import get_triu, fill_triu
from kfac.layers.modules import Conv2dModuleHelper, LinearModuleHelper
from kfac.layers.register import register_modules
from kfac.layers.eigen import KFACEigenLayer
from kfac.distributed import TorchDistributedCommunicator
from kfac.assignment import KAISAAssignment
from kfac.preconditioner import KFACPreconditioner
import kfac.tracing as tr

# C14
bad = 0
for dt, N in [(torch.float64, 200), (torch.float32, 200), (torch.float16, 200), (torch.bfloat16, 200)]:
    for n in range(1, N + 1):
        i = torch.arange(n)
        for M in (torch.minimum(i[:, None], i[None, :]), torch.maximum(i[:, None], i[None, :])):
            x = M.to(dt)
            if not torch.equal(x.double(), M.double()): continue   # not representable
            y = fill_triu(x.shape, get_triu(x))
            if not torch.equal(x, y) or get_triu(x).numel() != n * (n + 1) // 2: bad += 1
        # non-contiguous
        big = torch.arange(4 * n * n).reshape(2 * n, 2 * n).to(torch.float64)
        v = big[::2, ::2]; v = (v + v.t())
        if not torch.equal(fill_triu(v.shape, get_triu(v)), v): bad += 1
print("C14 bad:", bad)

# C15
rng = random.Random(0); bad = 0; n = 0
for _ in range(300):
    ci, co = rng.randint(1, 4), rng.randint(1, 4); kh, kw = rng.randint(1, 3), rng.randint(1, 3)
    sh, sw = rng.randint(1, 2), rng.randint(1, 2); ph, pw = rng.randint(0, 2), rng.randint(0, 2)
    H, W = rng.randint(max(kh - 2 * ph, 1) + 2, 9), rng.randint(max(kw - 2 * pw, 1) + 2, 9); B = rng.randint(1, 3); bias = rng.random() < .5
    conv = torch.nn.Conv2d(ci, co, (kh, kw), (sh, sw), (ph, pw), bias=bias).double()
    x = torch.randn(B, ci, H, W, dtype=torch.float64) * torch.arange(1, ci + 1).view(1, -1, 1, 1)
    y = conv(x); go = torch.randn_like(y); y.backward(go)
    h = Conv2dModuleHelper(conv)
    p = F.unfold(x, (kh, kw), padding=(ph, pw), stride=(sh, sw))  # B, D, S
    g = go.reshape(B, co, -1)
    exp = torch.einsum('bos,bds->od', g, p)
    if bias: exp = torch.cat([exp, g.sum((0, 2)).view(-1, 1)], 1)
    got = h.get_grad()
    S = p.shape[-1]
    r = p.transpose(1, 2).reshape(-1, p.shape[1])
    if bias: r = torch.cat([r, torch.ones(r.shape[0], 1, dtype=torch.float64)], 1)
    r = r / S; Aexp = r.t() @ r / r.shape[0]
    Agot = h.get_a_factor(x.clone())
    ok = torch.allclose(got, exp, atol=1e-9) and torch.allclose(Agot, Aexp, atol=1e-12) and tuple(Agot.shape) == h.a_factor_shape and tuple(h.get_g_factor(go).shape) == h.g_factor_shape
    M = torch.randn_like(got); h.set_grad(M); ok = ok and torch.equal(h.get_grad(), M)
    n += 1; bad += (not ok)
print("C15 conv cases", n, "bad", bad)

# C16 quick
class My(torch.nn.Linear): pass
shared = torch.nn.Linear(3, 3)
m = torch.nn.Sequential(shared, torch.nn.Sequential(shared, My(3, 2), torch.nn.BatchNorm1d(2)), torch.nn.MultiheadAttention(4, 2), torch.nn.Bilinear(2, 2, 2))
frozen = torch.nn.Linear(2, 2); frozen.bias.requires_grad_(False); m.add_module('fz', frozen)
reg = register_modules(m, KFACEigenLayer, skip_layers=['^fz$'], tdc=TorchDistributedCommunicator())
print("C16 registered:", sorted(n for n, _ in reg.values()))

# C17 replay check
def replay_ok(work, groups, coloc, res):
    loads = {w: 0.0 for g in groups for w in g}
    order = sorted(work, key=lambda l: -sum(work[l].values()))
    for l in order:
        gl = [sum(loads[w] for w in g) for g in groups]
        ws = set(res[l].values()); gi = [i for i, g in enumerate(groups) if ws <= set(g)]
        if not gi or gl[gi[0]] > min(gl) + 1e-12: return False
        g = groups[gi[0]]
        if coloc:
            if len(ws) != 1: return False
            w = next(iter(ws))
            if loads[w] > min(loads[x] for x in g) + 1e-12: return False
            loads[w] += sum(work[l].values())
        else:
            for f, c in sorted(work[l].items(), key=lambda x: -x[1]):
                w = res[l][f]
                if loads[w] > min(loads[x] for x in g) + 1e-12: return False
                loads[w] += c
    return True
bad = 0; n = 0
for _ in range(2000):
    W = rng.choice([1, 2, 4, 6, 8]); k = rng.choice([d for d in range(1, W + 1) if W % d == 0])
    groups = [sorted(s) for s in KAISAAssignment.partition_grad_workers(W, k)]
    work = {f'l{i}': {'A': rng.choice([0, 1, 2, 3, 5, 8]), 'G': rng.choice([0, 1, 2, 3, 5, 8])} for i in range(rng.randint(1, 7))}
    coloc = rng.random() < .5
    res = KAISAAssignment.greedy_assignment(work, [list(g) for g in groups], W, coloc)
    n += 1; bad += (not replay_ok(work, groups, coloc, res))
print("C17 cases", n, "replay-bad (stable order only)", bad)

# C20
class Clock:
    def __init__(s): s.t = 0; s.seq = []
    def time(s): s.t += 1; return float(s.t * (1 + len(s.seq) % 3))
tr.time = type('T', (), {'time': staticmethod(lambda c=[0]: (c.__setitem__(0, c[0] + 1), float(c[0] ** 2))[1])})
tr.clear_trace()
@tr.trace()
def f(x): return x
for i in range(5): assert f(i) is i
print("C20 trace", tr._func_traces, tr.get_trace(True, 2), tr.get_trace(False, None))
import time as _t; tr.time = _t

# dtypes
for pdt, fdt, idt, method in [(torch.bfloat16, None, torch.float32, 'eigen'), (torch.float32, torch.bfloat16, torch.bfloat16, 'inverse'), (torch.float32, torch.float16, torch.float16, 'eigen'), (torch.float64, torch.float32, torch.float64, 'inverse'), (torch.float16, None, torch.float32, 'eigen')]:
    try:
        model = torch.nn.Sequential(torch.nn.Conv2d(2, 3, 3), torch.nn.Flatten(), torch.nn.Linear(3 * 4 * 4, 4)).to(pdt)
        p = KFACPreconditioner(model, factor_dtype=fdt, inv_dtype=idt, compute_method=method, damping=0.05)
        x = torch.randn(3, 2, 6, 6, dtype=pdt)
        for _ in range(2):
            model.zero_grad(); model(x).float().pow(2).mean().backward(); p.step()
        sd = p.state_dict()['layers']
        print("dtype ok", pdt, fdt, idt, method, "factor dtype", sd['0']['A'].dtype, "grad dtype", model[0].weight.grad.dtype, "finite", all(torch.isfinite(q.grad).all().item() for q in model.parameters()))
    except Exception as e:
        print("dtype FAIL", pdt, fdt, idt, method, type(e).__name__, str(e)[:120])
