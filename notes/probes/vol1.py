import sys, warnings, math
warnings.simplefilter('ignore')
sys.path.insert(0, '/repo')
import torch, torch.distributed as dist
import sim
from kfac.preconditioner import KFACPreconditioner
torch.set_num_threads(1)
SH = [(5, 7, True), (7, 3, False), (3, 4, True)]
def fn(rank, n, k, method, prediv, sym, cap, F_, I_, steps=4):
    torch.manual_seed(0)
    layers = []
    for i, o, b in SH: layers += [torch.nn.Linear(i, o, bias=b), torch.nn.Tanh()]
    model = torch.nn.Sequential(*layers).double()
    p = KFACPreconditioner(model, grad_worker_fraction=k / n, compute_method=method, compute_eigenvalue_outer_product=prediv, symmetry_aware=sym,
                           allreduce_bucket_cap_mb=cap, factor_update_steps=F_, inv_update_steps=I_, damping=0.01)
    g = torch.Generator().manual_seed(100 + rank)
    marks = []
    for it in range(steps):
        marks.append(('begin', it))
        sim._tls.world.trace.append((rank, 'MARK', it, None))
        x = torch.randn(6, 5, generator=g, dtype=torch.float64)
        model.zero_grad(); model(x).pow(2).mean().backward()
        p.step()
    a = p._assignment
    info = {name: dict(gw=a.is_grad_worker(name), inv=(a.inv_worker(name, 'A'), a.inv_worker(name, 'G')), src=a.src_grad_worker(name)) for name in a.get_layers()}
    held = {}
    for name, layer in p._layers.values():
        held[name] = sum(v.numel() * v.element_size() for kk, v in vars(layer).items() if isinstance(v, torch.Tensor) and kk not in ('_a_factor', '_g_factor', '_a_batch', '_g_batch', '_grad'))
    return info, held, dict(p.memory_usage())

def tri(n): return n * (n + 1) // 2
for (n, k, method, prediv, sym, cap, F_, I_) in [(4, 4, 'eigen', True, False, 0, 1, 1), (4, 2, 'eigen', False, False, 0, 2, 2), (4, 1, 'inverse', False, True, 0, 1, 2), (4, 2, 'inverse', False, True, 25, 1, 1), (1, 1, 'eigen', True, False, 25, 1, 1)]:
    w, res, err = sim.run_world(n, lambda r, nn: fn(r, nn, k, method, prediv, sym, cap, F_, I_), seed=2)
    assert not any(err), [e for e in err if e][0][-1500:]
    # accounting per rank 0, per step, per group
    for rank in [0]:
        step = -1; vol = {}
        for t in w.trace:
            if t[0] != rank: continue
            if t[1] == 'MARK': step = t[2]; continue
            if t[1] == 'new_group': continue
            shape = t[3][0]; numel = math.prod(shape)
            vol.setdefault(step, {}).setdefault((t[2], t[1]), 0); vol[step][(t[2], t[1])] += numel
        Adims = [i + int(b) for i, o, b in SH]; Gdims = [o for i, o, b in SH]
        fac = sum((tri(a) if sym else a * a) + (tri(g) if sym else g * g) for a, g in zip(Adims, Gdims))
        print(f"n={n} k={k} {method} prediv={prediv} sym={sym} cap={cap} F={F_} I={I_}: expected factor numel/step={fac}")
        for s in sorted(vol): print("   step", s, vol[s])
    info, held, mem = res[0]
    print("   rank0 grad-worker:", {k_: v['gw'] for k_, v in info.items()}, "held 2nd-order bytes:", held, "mem a_inv+g_inv:", mem['a_inverses'] + mem['g_inverses'])
    info, held, mem = res[-1]
    print("   rank%d grad-worker:" % (n - 1), {k_: v['gw'] for k_, v in info.items()}, "held:", held)
