import torch
class PipelineModule(torch.nn.Module):
    def __init__(self, layers, topology):
        super().__init__()
        self.layers_ = torch.nn.ModuleList(layers)
        self._topo = topology
    def topology(self): return self._topo
