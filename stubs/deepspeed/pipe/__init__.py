"""Stand-in for deepspeed.pipe: only what kfac.gpt_neox needs (see DESIGN.md section 2.4)."""
import torch


class PipelineModule(torch.nn.Module):
    """Holds this stage's layers under their *global* layer index, as DeepSpeed does."""

    def __init__(self, layers, topology, offset=0):
        super().__init__()
        for i, layer in enumerate(layers):
            self.add_module(str(offset + i), layer)
        self._topo = topology

    def topology(self):
        return self._topo
