from collections import namedtuple
from itertools import product
class ProcessTopology:
    def __init__(self, axes, dims):
        self.axes = axes; self.dims = dims
        self.ProcessCoord = namedtuple('ProcessCoord', axes)
        self.mapping = {}
        for global_rank, coord in enumerate(product(*[range(d) for d in dims])):
            key = self.ProcessCoord(**{a: coord[self.axes.index(a)] for a in self.axes})
            self.mapping[key] = global_rank
    def get_dim(self, axis): return self.dims[self.axes.index(axis)] if axis in self.axes else 0
    def get_coord(self, rank):
        for c, r in self.mapping.items():
            if r == rank: return c
        raise ValueError(rank)
    def get_axis_comm_lists(self, axis):
        if axis not in self.axes: return []
        other = [a for a in self.axes if a != axis]
        lists = []
        for coord in product(*[range(self.get_dim(a)) for a in other]):
            ok = {a: coord[other.index(a)] for a in other}
            lists.append([self.mapping[self.ProcessCoord(**ok, **{axis: k})] for k in range(self.get_dim(axis))])
        return lists
    def world_size(self):
        n = 1
        for d in self.dims: n *= d
        return n
class PipeModelDataParallelTopology(ProcessTopology):
    def __init__(self, num_pp, num_mp, num_dp):
        super().__init__(axes=['pipe', 'data', 'model'], dims=[num_pp, num_dp, num_mp])
