#!/venv/bin/python
"""Regenerate MANIFEST.json from kverif/registry.py (single source of truth)."""
import json
import os
import sys

ROOT = os.path.dirname(os.path.dirname(os.path.abspath(__file__)))
sys.path.insert(0, ROOT)
from kverif.registry import CHECKS, ENGINES, NOT_APPLICABLE, NOTES, SETUP_CMD  # noqa: E402

BASE = '/venv/bin/python -m kverif.run {id} --tier {tier}'
checks = []
for c in CHECKS:
    checks.append({
        'property_id': c['id'],
        'quick_cmd': BASE.format(id=c['id'], tier='quick'),
        'thorough_cmd': BASE.format(id=c['id'], tier='thorough'),
        'evidence_file': f'/verif/evidence/{c["id"]}.json',
        'replay_cmd_template': '/venv/bin/python -m kverif.run %s --replay {path}' % c['id'],
        'engine': c['engine'],
        'level_claimed': {'category': c['level'], 'text': c['text'], 'design_ref': c['design_ref']},
        'level_note': c['note'],
        'technique': c['technique'],
    })
claimed = {c['id'] for c in CHECKS}
na = [dict(property_id=k, reason=v) for k, v in sorted(NOT_APPLICABLE.items()) if k not in claimed]
allp = {json.loads(l)['id'] for l in open(os.path.join(ROOT, 'properties.jsonl'))}
missing = allp - claimed - set(NOT_APPLICABLE)
assert not missing, missing
m = {
    'version': 1,
    'setup_cmd': SETUP_CMD,
    'hooks': {
        'guard': 'KFAC_VERIF',
        'enable': 'no source hooks exist: every observation is made from the harness side (module hooks registered by the harness, a registered c10d backend, attribute wrapping); the guard name is reserved',
        'baseline_off_cmd': 'cd /repo && /venv/bin/python -m pytest -ra -q -p no:cacheprovider --timeout=900 --continue-on-collection-errors',
        'source_commits': [],
        'add_only': True,
    },
    'engines': ENGINES,
    'checks': checks,
    'notes': NOTES,
    'not_applicable': na,
}
json.dump(m, open(os.path.join(ROOT, 'MANIFEST.json'), 'w'), indent=1)
print('checks:', len(checks), 'not_applicable:', len(na))
