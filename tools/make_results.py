#!/venv/bin/python
"""Turn the raw outputs of tools/mutation_check.py and tools/seeded_check.py into markdown tables.
usage: tools/make_results.py [mutants/RESULTS.txt] [seeded-matrix-log]"""
import json
import os
import re
import sys

ROOT = os.path.dirname(os.path.dirname(os.path.abspath(__file__)))
mut = sys.argv[1] if len(sys.argv) > 1 else os.path.join(ROOT, 'mutants', 'RESULTS.txt')
seed = sys.argv[2] if len(sys.argv) > 2 else None
if os.path.exists(mut):
    rows = []
    for ln in open(mut):
        m = re.match(r'^(c\d\d-\S+)\s+(CAUGHT|MISSED|INCONCLUSIVE|STALE[^C]*)\s+(.*)$', ln)
        if m:
            det = re.sub(r'/tmp/kvmut-\w+/', '', m.group(3))
            what = det.split('what:')[1].strip()[:110] if 'what:' in det else ''
            by = ','.join(re.findall(r'(C\d\d):caught', det))
            rows.append((m.group(1), m.group(2).strip(), by, what))
    with open(os.path.join(ROOT, 'mutants', 'RESULTS.md'), 'w') as f:
        f.write('# Own property-breaking mutants (mutants/mutants.py) against the quick tier\n\n')
        f.write(f'{sum(r[1] == "CAUGHT" for r in rows)} of {len(rows)} caught. Produced by `tools/mutation_check.py` (scratch copies via KVERIF_REPO, /repo untouched).\n\n')
        f.write('| mutant | result | caught by | first witness |\n|---|---|---|---|\n')
        for r in rows:
            f.write(f'| {r[0]} | {r[1]} | {r[2]} | {r[3].replace("|", "/")} |\n')
    print('mutants:', len(rows))
# seeded changes: any number of logs (cross-matrix logs and target-check logs of tools/seeded_check.py); the union of the
# checks that caught a change over all logs is reported, together with what the change needs in order to manifest
import glob
seed_logs = sys.argv[2:] or sorted(glob.glob(os.path.join(ROOT, 'seeded', '_logs', '*.log')))
caught = {}
for lg in seed_logs:
    if not os.path.exists(lg):
        continue
    for ln in open(lg, errors='replace'):
        m = re.match(r'^(C\d\d-\S+)\s+(CAUGHT by (\S+)|MISSED|PATCH DOES NOT APPLY)', ln)
        if m:
            caught.setdefault(m.group(1), set())
            if m.group(3):
                caught[m.group(1)].update(m.group(3).split(','))
names = sorted(d for d in os.listdir(os.path.join(ROOT, 'seeded')) if os.path.isdir(os.path.join(ROOT, 'seeded', d)) and not d.startswith('_'))
with open(os.path.join(ROOT, 'seeded', 'RESULTS.md'), 'w') as f:
    f.write('# Seeded changes (written by independent sub-agents) and the checks that catch them (quick tier)\n\n')
    f.write('Union over the logs in `seeded/_logs/` (cross matrices against all 20 checks for rounds 1-4, target and neighbouring checks for the later rounds). '
            'A change listed without a check has not been run since it was stored.\n\n')
    f.write(f'{sum(1 for n in names if caught.get(n))} of {len(names)} stored changes are caught.\n\n')
    f.write('| seeded change | needs to manifest | caught by |\n|---|---|---|\n')
    for name in names:
        meta = json.load(open(os.path.join(ROOT, 'seeded', name, 'meta.json')))
        f.write(f'| {name} | {meta["needs_to_manifest"]} | {", ".join(sorted(caught.get(name, []))) or "-"} |\n')
print('seeded:', len(names), 'caught:', sum(1 for n in names if caught.get(n)))
