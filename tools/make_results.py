#!/venv/bin/python
"""Turn the raw outputs of tools/mutation_check.py and tools/seeded_check.py into markdown tables.
usage: tools/make_results.py [mutants/RESULTS.txt] [seeded-matrix-log]"""
import json
import os
import re
import sys

ROOT = os.path.dirname(os.path.dirname(os.path.abspath(__file__)))
mut = sys.argv[1] if len(sys.argv) > 1 else os.path.join(ROOT, 'mutants', 'RESULTS.txt')
seed = sys.argv[2] if len(sys.argv) > 2 else None
if os.path.exists(mut):
    rows = []
    for ln in open(mut):
        m = re.match(r'^(c\d\d-\S+)\s+(CAUGHT|MISSED|INCONCLUSIVE|STALE[^C]*)\s+(.*)$', ln)
        if m:
            det = re.sub(r'/tmp/kvmut-\w+/', '', m.group(3))
            what = det.split('what:')[1].strip()[:110] if 'what:' in det else ''
            by = ','.join(re.findall(r'(C\d\d):caught', det))
            rows.append((m.group(1), m.group(2).strip(), by, what))
    with open(os.path.join(ROOT, 'mutants', 'RESULTS.md'), 'w') as f:
        f.write('# Own property-breaking mutants (mutants/mutants.py) against the quick tier\n\n')
        f.write(f'{sum(r[1] == "CAUGHT" for r in rows)} of {len(rows)} caught. Produced by `tools/mutation_check.py` (scratch copies via KVERIF_REPO, /repo untouched).\n\n')
        f.write('| mutant | result | caught by | first witness |\n|---|---|---|---|\n')
        for r in rows:
            f.write(f'| {r[0]} | {r[1]} | {r[2]} | {r[3].replace("|", "/")} |\n')
    print('mutants:', len(rows))
if seed and os.path.exists(seed):
    rows = []
    for ln in open(seed):
        m = re.match(r'^(C\d\d-\S+)\s+(CAUGHT by (\S+)|MISSED|PATCH DOES NOT APPLY)', ln)
        if m:
            rows.append((m.group(1), m.group(3) or m.group(2)))
    with open(os.path.join(ROOT, 'seeded', 'RESULTS.md'), 'w') as f:
        f.write('# Seeded changes (written by independent sub-agents) against the quick tier of ALL checks\n\n')
        f.write('| seeded change | needs to manifest | caught by |\n|---|---|---|\n')
        for name, by in rows:
            meta = json.load(open(os.path.join(ROOT, 'seeded', name, 'meta.json')))
            f.write(f'| {name} | {meta["needs_to_manifest"]} | {by} |\n')
    print('seeded:', len(rows))
