#!/venv/bin/python
"""Apply property-breaking string replacements to a scratch copy of /repo/kfac and
confirm that the quick check of the property fires (exit 1 with a VIOLATION line).

usage: tools/mutation_check.py [ID ...] [--only mutant-name] [--tier quick]
The scratch copy lives under a fresh temp dir (outside /repo and /verif) and is
removed afterwards. /repo itself is never touched.
"""
from __future__ import annotations

import argparse
import os
import shutil
import subprocess
import sys
import tempfile
import time

sys.path.insert(0, os.path.dirname(os.path.dirname(os.path.abspath(__file__))))
from mutants.mutants import MUTANTS  # noqa: E402

VERIF = os.path.dirname(os.path.dirname(os.path.abspath(__file__)))


def run_mutant(m, tier):
    tmp = tempfile.mkdtemp(prefix='kvmut-')
    try:
        shutil.copytree('/repo/kfac', os.path.join(tmp, 'kfac'))
        for (rel, old, new) in m['edits']:
            path = os.path.join(tmp, rel)
            src = open(path).read()
            if src.count(old) < 1:
                return 'STALE (pattern not found)', ''
            src = src.replace(old, new, m.get('count', 1))
            open(path, 'w').write(src)
        env = dict(os.environ, KVERIF_REPO=tmp, KVERIF_OUT=os.path.join(tmp, 'out'))
        out = []
        status = 'MISSED'
        for pid in m['props']:
            t0 = time.time()
            p = subprocess.run(['/venv/bin/python', '-m', 'kverif.run', pid, '--tier', tier], cwd=VERIF, env=env,
                               stdout=subprocess.PIPE, stderr=subprocess.STDOUT, text=True)
            fired = p.returncode == 1 and 'VIOLATION property=' + pid in p.stdout
            out.append(f'{pid}:{"caught" if fired else "exit%d" % p.returncode}({time.time() - t0:.0f}s)')
            if fired:
                status = 'CAUGHT'
            elif p.returncode == 2 and status != 'CAUGHT':
                status = 'INCONCLUSIVE'
            what = [ln for ln in p.stdout.splitlines() if ln.startswith('  what:')][:1]
            if what:
                out.append(what[0][:160])
            if fired and os.environ.get('KV_REPLAY_TEST'):
                rp = [ln.split('replay=')[1].strip() for ln in p.stdout.splitlines() if ln.startswith('VIOLATION')][0]
                r = subprocess.run(['/venv/bin/python', '-m', 'kverif.run', pid, '--replay', rp], cwd=VERIF, env=env, stdout=subprocess.PIPE, stderr=subprocess.STDOUT, text=True)
                out.append('REPLAY:' + ('reproduced' if r.returncode == 1 else 'NOT-REPRODUCED'))
        return status, ' '.join(out)
    finally:
        shutil.rmtree(tmp, ignore_errors=True)


def main():
    ap = argparse.ArgumentParser()
    ap.add_argument('ids', nargs='*')
    ap.add_argument('--only')
    ap.add_argument('--tier', default='quick')
    a = ap.parse_args()
    ids = {i.upper() for i in a.ids}
    rows = []
    for m in MUTANTS:
        if ids and not (ids & set(m['props'])):
            continue
        if a.only and a.only != m['name']:
            continue
        mm = dict(m)
        if ids:
            mm['props'] = [p for p in m['props'] if p in ids]
        status, detail = run_mutant(mm, a.tier)
        print(f'{m["name"]:45s} {status:12s} {detail}', flush=True)
        rows.append((m['name'], status, detail))
    missed = [r for r in rows if r[1] != 'CAUGHT']
    print(f'{len(rows) - len(missed)}/{len(rows)} caught')
    return 1 if missed else 0


if __name__ == '__main__':
    sys.exit(main())
