#!/bin/bash
# Run every registered check (quick by default) against /repo and refresh /verif/evidence. usage: tools/run_all.sh [quick|thorough]
cd "$(dirname "$0")/.."
tier=${1:-quick}
rc=0
for i in C01 C02 C03 C04 C05 C06 C07 C08 C09 C10 C11 C12 C13 C14 C15 C16 C17 C18 C19 C20; do
  /venv/bin/python -m kverif.run $i --tier $tier 2>&1 | grep -E "RESULT|VIOLATION|KNOWN-FINDING|INCONCLUSIVE|  what" | cut -c1-300
  [ ${PIPESTATUS[0]} -ne 0 ] && rc=1
done
exit $rc
