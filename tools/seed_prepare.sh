#!/bin/bash
# Prepare scratch worktrees for a round of independently written breaking changes.
# usage: tools/seed_prepare.sh <round> <two-digit property numbers...>     e.g. tools/seed_prepare.sh 16 17 19 20
# Creates /tmp/seed<round>/C<nn> (detached git worktrees of /repo) with _seed/PROPERTY.txt (the property text only) and the
# patches already stored for that property (so that the new change uses another mechanism), and /tmp/seed<round>/PROMPT.txt.
R=$1; shift
mkdir -p /tmp/seed$R && cd /repo && for i in "$@"; do git worktree add -q --detach /tmp/seed$R/C$i HEAD && mkdir -p /tmp/seed$R/C$i/_seed; done
cd /verif; IDS="$*" R=$R /venv/bin/python - <<'EOF'
import json, glob, shutil, os
R=os.environ['R']; ids=['C'+i for i in os.environ['IDS'].split()]
for l in open('/verif/properties.jsonl'):
    p=json.loads(l)
    if p['id'] not in ids: continue
    txt=f"""PROPERTY {p['id']}: {p['title']}

Statement: {p['statement']}

Quantified over: {', '.join(p['quantifier']['over'])} — {p['quantifier']['text']}

Why the existing tests cannot settle it: {p['why_tests_cant']}

Code anchors (files): {', '.join(p['anchors']['files'])}
Mechanisms: {'; '.join(m.get('name','')+' @ '+m.get('where','') for m in p['anchors']['mechanism'])}
"""
    if p['id'] in ('C12','C17'):
        txt += "\nNote on reading the statement: HOW a tie between equally loaded ranks/workers/groups is resolved is not part of the property, so a change that only alters the choice among exact ties does not break it - unless the result then differs between interpreter processes.\n"
    if p['id'] == 'C01':
        txt += "\nNote: the property is about the preconditioned gradient being the solution of the damped Kronecker system up to ONE positive scalar shared by all layers; a change that only alters that shared scalar does not break this property.\n"
    open(f"/tmp/seed{R}/{p['id']}/_seed/PROPERTY.txt",'w').write(txt)
    for i,f in enumerate(sorted(glob.glob(f"/verif/seeded/{p['id']}-*/patch.diff"))):
        shutil.copy(f, f"/tmp/seed{R}/{p['id']}/_seed/previous_patch_{i+1}.diff")
s=open('/verif/tools/seed_prompt.txt').read().replace('@ROUND@', R)
open(f'/tmp/seed{R}/PROMPT.txt','w').write(s)
EOF
