#!/bin/bash
# usage: tools/seeded_add.sh <worktree> <ID> <slug> "<needs to manifest>" [expected checks comma separated]
W=$1; ID=$2; SLUG=$3; NEEDS=$4; EXP=${5:-$ID}
cd /verif
out=$(tools/seeded_verify.sh $W 2>&1 | grep -v conda)
echo "$out"
echo "$out" | grep -q "passed" || { echo "TESTS DID NOT PASS"; exit 1; }
echo "$out" | tr '\n' ' ' | grep -q "demo with change exit [1-9].*demo without change exit 0" || { echo "DEMO NOT CONFIRMED"; exit 1; }
d=seeded/$ID-$SLUG; mkdir -p $d; cp $W/_seed/patch.verify.diff $d/patch.diff; cp $W/_seed/demo.py $d/demo.py; cp $W/_seed/NOTES.md $d/NOTES.md 2>/dev/null
TESTS=$(echo "$out" | grep passed | head -1)
/venv/bin/python - "$ID" "$SLUG" "$NEEDS" "$EXP" "$TESTS" <<'PY'
import json,sys
pid,slug,needs,exp,tests=sys.argv[1:6]
json.dump(dict(property=pid, name=f'{pid}-{slug}', source='independent sub-agent given only the property text and a scratch worktree of /repo',
  needs_to_manifest=needs,
  confirmed=dict(test_suite_with_change=tests+' (tools/seeded_verify.sh in the scratch worktree)', demo_with_change='non-zero exit', demo_without_change='exit 0'),
  expected_checks=exp.split(',')), open(f'/verif/seeded/{pid}-{slug}/meta.json','w'), indent=1)
PY
tools/seeded_check.py $ID-$SLUG 2>&1 | grep -v conda
