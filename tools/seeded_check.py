#!/venv/bin/python
"""Run checks against the seeded (independently written) breaking changes under /verif/seeded/.

usage: tools/seeded_check.py [name ...] [--props C01,C05 | --all-props] [--tier quick]
Each change is applied to a scratch copy of /repo/kfac (KVERIF_REPO), never to /repo; outputs go to the scratch dir.
"""
import argparse
import json
import os
import shutil
import subprocess
import sys
import tempfile
import time

VERIF = os.path.dirname(os.path.dirname(os.path.abspath(__file__)))
ALL = ['C%02d' % i for i in range(1, 21)]


def main():
    ap = argparse.ArgumentParser()
    ap.add_argument('names', nargs='*')
    ap.add_argument('--props')
    ap.add_argument('--all-props', action='store_true')
    ap.add_argument('--tier', default='quick')
    a = ap.parse_args()
    root = os.path.join(VERIF, 'seeded')
    names = a.names or sorted(d for d in os.listdir(root) if os.path.isdir(os.path.join(root, d)) and not d.startswith('_'))
    missed = 0
    for name in names:
        d = os.path.join(root, name)
        meta = json.load(open(os.path.join(d, 'meta.json')))
        props = ALL if a.all_props else (a.props.split(',') if a.props else meta.get('expected_checks', [meta['property']]))
        tmp = tempfile.mkdtemp(prefix='kvseed-')
        try:
            shutil.copytree('/repo/kfac', os.path.join(tmp, 'kfac'))
            p = subprocess.run(['patch', '-p1', '-s', '-d', tmp, '-i', os.path.join(d, 'patch.diff')], capture_output=True, text=True)
            if p.returncode != 0:
                print(f'{name:40s} PATCH DOES NOT APPLY: {p.stdout[-200:]} {p.stderr[-200:]}')
                missed += 1
                continue
            env = dict(os.environ, KVERIF_REPO=tmp, KVERIF_OUT=os.path.join(tmp, 'out'))
            caught = []
            detail = ''
            for pid in props:
                t0 = time.time()
                r = subprocess.run(['/venv/bin/python', '-m', 'kverif.run', pid, '--tier', a.tier], cwd=VERIF, env=env, stdout=subprocess.PIPE, stderr=subprocess.STDOUT, text=True)
                if r.returncode == 1 and f'VIOLATION property={pid}' in r.stdout:
                    caught.append(pid)
                    if not detail:
                        w = [ln for ln in r.stdout.splitlines() if ln.startswith('  what:')]
                        detail = (w[0][:170] if w else '')
                elif r.returncode == 2:
                    detail = detail or ('inconclusive: ' + r.stdout[-200:].replace('\n', ' '))
            status = 'CAUGHT by ' + ','.join(caught) if caught else 'MISSED'
            if not caught:
                missed += 1
            print(f'{name:40s} {status:24s} {detail}', flush=True)
        finally:
            shutil.rmtree(tmp, ignore_errors=True)
    return 1 if missed else 0


if __name__ == '__main__':
    sys.exit(main())
