#!/bin/bash
# Confirm a sub-agent's seeded change in its scratch worktree: tests pass with it, demo fails with it and passes without.
# usage: tools/seeded_verify.sh /tmp/seed/C01
W=$1
cd $W || exit 2
export PYTHONPATH=$W
git diff -- kfac > _seed/patch.verify.diff
if [ ! -s _seed/patch.verify.diff ]; then echo "NO CHANGE APPLIED"; exit 2; fi
echo "== tests with change"; timeout 900 /venv/bin/python -m pytest -q -p no:cacheprovider --timeout=900 tests 2>&1 | tail -1
echo "== demo with change";  timeout 600 /venv/bin/python _seed/demo.py > _seed/demo_with.log 2>&1; echo "exit $?"
git stash -q -- kfac
echo "== demo without change"; timeout 600 /venv/bin/python _seed/demo.py > _seed/demo_without.log 2>&1; echo "exit $?"
git stash pop -q
git diff --stat -- kfac | tail -1
