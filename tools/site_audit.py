#!/venv/bin/python
"""Sensitivity audit of the monitors: which violation sites of the checks have ever fired on a broken tree?
usage: KVERIF_SITE_LOG=<file> tools/mutation_check.py; KVERIF_SITE_LOG=<file> tools/seeded_check.py; tools/site_audit.py <file>...
Every call of Result.violation appends its call site (file:line) to $KVERIF_SITE_LOG. A site that never fired on any
own mutant or seeded change is either a defensive check or a blind monitor: it gets a targeted mutant or a note."""
import glob
import os
import re
import sys

ROOT = os.path.dirname(os.path.dirname(os.path.abspath(__file__)))
hits = {}
for p in sys.argv[1:]:
    for ln in open(p):
        ln = ln.strip()
        if ln:
            hits[ln] = hits.get(ln, 0) + 1
tot = unc = 0
for path in sorted(glob.glob(os.path.join(ROOT, 'kverif', 'props', 'c*.py'))):
    src = open(path).read()
    base = os.path.basename(path)
    for m in re.finditer(r"res\.violation\(", src):
        line = src[:m.start()].count('\n') + 1
        tot += 1
        n = sum(hits.get(f'{base}:{l}', 0) for l in range(line, line + 4))
        if n:
            continue
        unc += 1
        msg = src[m.end():m.end() + 120].replace('\n', ' ')
        print(f'{base}:{line}: never fired: {msg}')
    if 'def postcheck' in src:
        tot += 1
        if not hits.get(f'{base}:postcheck'):
            unc += 1
            print(f'{base}: postcheck never fired')
print(f'{tot - unc} of {tot} violation sites fired on at least one mutant or seeded change')
